"""C15 - ADB connection lifecycle.  Specs: AdbConnect.tla (CNXN/AUTH
handshake automaton) and AdbMux.tla (stream ids, open/close/remote close,
drain-then-closed, illegal mid-session packets).

TLC checks ConnectedOnlyAfterCnxn / SignsOnlyTokens / KeysInOrder /
PubkeyOnceAfterAll and the id/CLSE invariants, and emits every handshake run and
every open/close history; each is replayed on the real AdbConnection over a
scripted fake device.  Thorough additionally wraps the production id limit with
real open/close pairs."""
import json
import multiprocessing as mp
import sys

from checks import muxlib
from vf import common, tlaval, tlc

NOISE = [('OKAY', 5, 5, ''), ('WRTE', 5, 5, 'zz'), ('CLSE', 1, 1, ''), ('SYNC', 0, 0, ''), ('OPEN', 1, 0, 'x\0')]


def replay_handshake(h):
  from vf import usbfake
  ap, ue = usbfake.adb_protocol, usbfake.usb_exceptions
  bad = []

  class Key(ap.AuthSigner):
    def __init__(self, i):
      self.i = i
    def sign(self, data):
      return 'signed:%d:%s' % (self.i, data)
    def get_public_key(self):
      return 'pub%d' % self.i
  rx = []
  for pos, x in enumerate(h['script'], 1):
    if x == 'CNXN':
      # (the banner is free text: property lists with colons and semicolons are usual)
      rx += usbfake.frame('CNXN', 0x01000000, 4096, 'device:SER%d:banner text%s' % (pos, BANNER_TAIL[pos % 2]))
    elif x == 'CNXNBAD':
      rx += usbfake.frame('CNXN', 0x01000000, 4096, 'nocolons')
    elif x == 'TOKEN':
      rx += usbfake.frame('AUTH', 1, 0, 'tok%d' % pos)
    elif x == 'AUTHX':
      rx += usbfake.frame('AUTH', 2, 0, 'sig%d' % pos)
    else:
      rx += usbfake.frame(*NOISE[pos % len(NOISE)])
  t = usbfake.ChunkTransport(rx=rx)
  keys = [Key(i) for i in range(1, h['n'] + 1)]
  try:
    conn = ap.AdbConnection.connect(t, rsa_keys=keys or None, timeout_ms=60000, auth_timeout_ms=60000)
    got = ('connected', conn)
  except Exception as e:  # pylint: disable=broad-except
    got = ('error', type(e).__name__)
  res = h['result']
  if res[0] == 'connected':
    if got[0] != 'connected':
      bad.append('connect() raised %s, model says it returns a connection' % got[1])
    else:
      c = got[1]
      want = (4096, 'device', 'SER%d' % res[1], 'banner text' + BANNER_TAIL[res[1] % 2])
      if (c.maxdata, c.systemtype, c.serial, c.banner) != want:
        bad.append('connection attributes are not taken from the CNXN that completed the handshake')
  else:
    classes = {'TIMEOUT': ('UsbReadFailedError', 'AdbTimeoutError'), 'DeviceAuthError': ('DeviceAuthError',),
               'AdbProtocolError': ('AdbProtocolError',)}[res[0]]
    if got[0] == 'connected':
      bad.append('connect() returned a connection, model says it raises %s' % res[0])
    elif got[1] not in classes:
      bad.append('connect() raised %s, model says %s' % (got[1], '/'.join(classes)))
  # host messages
  msgs = []
  tx = list(t.tx)
  for i in range(0, len(tx) - 1, 2):
    import struct
    cmd, a0, a1, ln, ck, mg = struct.unpack('<6I', tx[i])
    msgs.append((usbfake.adb_message.AdbMessage.WIRE_TO_CMD.get(cmd), a0, a1, tx[i + 1]))
  exp = []
  for s in h['sent']:
    if s[0] == 'CNXN':
      exp.append(('CNXN', ap.ADB_VERSION, ap.MAX_ADB_DATA, 'host::%s\0' % ap.ADB_BANNER))
    elif s[0] == 'SIGN':
      exp.append(('AUTH', 2, 0, 'signed:%d:tok%d' % (s[1], s[2])))
    else:
      exp.append(('AUTH', 3, 0, 'pub1\0'))
  if msgs != exp:
    bad.append('host sent %s during the handshake, model says %s'
               % ([(m[0], m[1], m[3][:14]) for m in msgs], [(m[0], m[1], m[3][:14]) for m in exp]))
  return bad


BANNER_TAIL = ('', ' ro.build.fingerprint=google/walleye:8.1.0/OPM1:user;features=cmd,shell_v2')


def work_handshake(text):
  sys.argv = sys.argv[:1]
  hists = tlaval.parse_many(text, 'HIST')
  out = dict(n=0, bad=[], nontrivial=0, sample=None)
  for (h,) in hists:
    out['n'] += 1
    if len(h['script']) >= 2:
      out['nontrivial'] += 1
    bad = replay_handshake(h)
    if bad and len(out['bad']) < 8:
      out['bad'].append((bad[0], h))
    if out['sample'] is None and len(h['sent']) >= 3:
      out['sample'] = h
  return out


def noise_until_timeout():
  """spammed with unrelated packets until the timeout: an error, no connection"""
  from vf import sched, usbfake
  box = {}

  def main():
    rx = []
    for i in range(50):
      rx += usbfake.frame('OKAY', 5, 5)
    t = usbfake.ChunkTransport(rx=rx, on_read=lambda *a: __import__('time').sleep(0.05))
    try:
      usbfake.adb_protocol.AdbConnection.connect(t, timeout_ms=1000)
      box['r'] = 'connected'
    except Exception as e:  # pylint: disable=broad-except
      box['r'] = type(e).__name__
  sched.Sched().run(main)
  if box.get('r') not in ('AdbTimeoutError', 'UsbReadFailedError'):
    return ['connect() under a flood of unrelated packets ends with %s instead of a timeout error' % box.get('r')]
  return []


def production_wrap():
  """id wrap-around at the production limit with real open/close pairs while
  three streams stay open"""
  from vf import sched, usbfake
  ap = usbfake.adb_protocol
  box = dict(bad=[])

  def main():
    dev = muxlib.Device(4096)
    conn = ap.AdbConnection.connect(dev, timeout_ms=10 ** 7)
    dev.tx = []
    keep = {}
    seen_open = []
    limit = ap.STREAM_ID_LIMIT
    for i in range(limit + 300):
      dev.open_reply = 'OKAY'
      st = conn.open_stream('d', timeout_ms=10 ** 7)
      lid = dev.tx[-1][1]
      if not (1 <= lid < limit):
        box['bad'].append('open_stream used local id %d outside 1..limit-1' % lid)
        return
      if lid in keep:
        box['bad'].append('open_stream reused local id %d of a stream that is still open' % lid)
        return
      if i in (0, 7, limit - 2):
        keep[lid] = st
      else:
        n0 = len(dev.tx)
        st.close()
        cl = [m for m in dev.tx[n0:] if m[0] == 'CLSE']
        if len(cl) != 1:
          box['bad'].append('close() sent %d CLSE messages' % len(cl))
          return
      dev.tx = dev.tx[-2:]
    box['opens'] = limit + 300
  s = sched.Sched(max_steps=10 ** 9)
  s.run(main)
  return box


def main(chk):
  res = tlc.must_pass(tlc.run('AdbConnect', 'AdbConnect_mc.cfg', coverage=True, workers=8), 'AdbConnect design+emit')
  cov = res.coverage()
  chk.add_tlc('AdbConnect', res, action_counts={k: v[1] for k, v in cov.items()})
  quick = chk.tier == 'quick'
  with mp.Pool(14, maxtasksperchild=20) as pool:
    outs = pool.map(work_handshake, tlaval.split_prints(res.out, 'HIST', 56))
    n = sum(o['n'] for o in outs)
    chk.traces += n
    chk.nontrivial += sum(o['nontrivial'] for o in outs)
    for o in outs:
      for sig, h in o['bad']:
        import re
        chk.violation(re.sub(r'\[.*', '', sig)[:140], dict(mismatch=sig, run=h))
      if o['sample']:
        chk.sample(dict(part='handshake', run=o['sample']))
    chk.log('%d handshake runs replayed' % n)
    # open/close histories (AdbMux.tla)
    import checks.c14 as c14
    if quick:
      c14.emit_replay(chk, pool, 3, 4, 1, 1, [('a',)], illegal='"AUTH", "CNXN", "OPEN", "SYNC"', streams=3)
      c14.emit_replay(chk, pool, 6, 5, 0, 0, [('a',)], streams=6)
    else:
      c14.emit_replay(chk, pool, 3, 5, 1, 1, [('a',)], illegal='"AUTH", "CNXN", "OPEN", "SYNC"', streams=3)
      c14.emit_replay(chk, pool, 6, 6, 0, 0, [('a',)], streams=6)
      c14.emit_replay(chk, pool, 4, 5, 2, 2, [('a',)], streams=3)
    sys.argv = sys.argv[:1]
    for sig in pool.apply(noise_until_timeout):
      chk.violation(sig, {})
    if not quick:
      box = pool.apply(production_wrap)
      for sig in box['bad']:
        chk.violation(sig, {})
      chk.cov['production_limit_wrap'] = '%s real open/close pairs with 3 streams kept open across the wrap' % box.get('opens')
  chk.cov['rule'] = ('handshake: every device reply script over {CNXN, malformed CNXN, AUTH token, other AUTH, noise} up to '
                     'length 5 x 0..2 keys; open/close: TLC-enumerated histories of open(OKAY|CLSE|silence)/read/write/close '
                     'with device CLSE/WRTE/illegal packets and a small id limit; all distinct')
  chk.assumptions += ['quick: STREAM_ID_LIMIT is set to the model constant (3..6) so that exhaustion and wrap-around are reachable; '
                      'thorough also wraps the production constant with real open/close pairs',
                      'silence is a transport read that raises the libusb timeout error immediately']
  return chk.finish(explanation='AdbConnect.tla and the id/open/close invariants of AdbMux.tla checked by TLC; every emitted '
                    'handshake run and open/close history replayed on the real AdbConnection', exhaustive=True)


def replay(path):
  with open(path) as fh:
    sc = json.load(fh)['scenario']
  sys.argv = sys.argv[:1]
  if 'run' in sc:
    bad = replay_handshake(sc['run'])
  elif 'history' in sc:
    bad = [b[0] for b in muxlib.replay_history(sc['history'], sc['limit'])]
  else:
    bad = []
  if bad:
    print('VIOLATION property=C15 replay=%s\n  what: %s' % (path, bad[0]))
    return 1
  print('replay: conforms')
  return 0
