"""C14 - ADB streams: per-stream in-order exactly-once delivery, acks, flow
control, no deadlock / lost wake-up.

Specs: AdbMux.tla (the multiplexer seen from one host thread at a time:
routing, acknowledgement, chunking, FIFO delivery) and ReadUntil.tla (PlusCal:
the reader election + condition variable protocol between threads sharing a
stream; Termination under weak fairness).

1. TLC: AdbMux invariants (exhaustive, history hidden by a VIEW) and
   ReadUntil (the repaired protocol terminates; the pinned protocol and the
   half repair deadlock - kept as sensitivity evidence).
2. spec->code: every AdbMux history TLC emits is replayed on the real
   AdbConnection over a reactive fake device.
3. code->spec: reader/writer threads on the real AdbConnection are explored by
   preemption-bounded DFS under the deterministic scheduler; every run is judged
   on deadlock, spurious timeouts, per-stream FIFO delivery and ack counts."""
import collections
import concurrent.futures as cf
import json
import multiprocessing as mp
import struct
import sys
import threading

from checks import muxlib
from vf import common, tlaval, tlc


# ----------------------------------------------------------------------
# thread scenarios on the real code

class ReactiveDevice:
  """answers CNXN, OPEN -> OKAY (+ scripted unsolicited WRTEs), host WRTE -> OKAY"""

  def __init__(self, script, sched):
    from vf import usbfake
    self.uf = usbfake
    self.sched = sched
    self.rx = collections.deque()
    self.pending = None
    self.host = []          # decoded host messages
    self.script = script    # dict: nth OPEN -> list of data strings to send after the OKAY
    self.nopen = 0
    self.lids = {}
    self.later = []         # messages released when the first host WRTE arrives
    self.ack_writes = True
    self.before_ack = []    # data the service sends when it receives a host WRTE, ahead of that WRTE's OKAY

  def write(self, data, timeout_ms=None):
    self.sched.yield_('usb.write')
    if self.pending is None:
      cmd, a0, a1, ln, ck, mg = struct.unpack('<6I', data)
      self.pending = (self.uf.adb_message.AdbMessage.WIRE_TO_CMD[cmd], a0, a1)
      return
    cmd, a0, a1 = self.pending
    self.pending = None
    self.host.append((cmd, a0, a1, data))
    if cmd == 'CNXN':
      self.rx.extend(self.uf.frame('CNXN', 1, 256, 'device:S:b'))
    elif cmd == 'OPEN':
      self.nopen += 1
      rid = 70 + self.nopen
      self.lids[self.nopen] = (a0, rid)
      self.rx.extend(self.uf.frame('OKAY', rid, a0))
      for d in self.script.get(self.nopen, []):      # data the service sends right behind its OKAY
        self.rx.extend(self.uf.frame('WRTE', rid, a0, d))
    elif cmd == 'WRTE' and self.ack_writes:
      for d in self.before_ack:
        self.rx.extend(self.uf.frame('WRTE', a1, a0, d))
      self.before_ack = []
      self.rx.extend(self.uf.frame('OKAY', a1, a0))

  def push(self, n, data):
    lid, rid = self.lids[n]
    self.rx.extend(self.uf.frame('WRTE', rid, lid, data))

  def read(self, length, timeout_ms=None):
    if not self.rx:
      ok = self.sched.yield_('usb.read', cond=lambda: bool(self.rx),
                             timeout=None if timeout_ms is None else timeout_ms / 1000.0)
      if not ok:
        raise self.uf.timeout_error()
    return self.rx.popleft()[:length]

  def close(self):
    pass


def scenario(name, tmo):
  """returns run_fn(policy) -> (sched, result dict)"""
  def run(policy):
    from vf import sched, usbfake
    # (the 10 ms queue poll may expire early; scenario rwl: every statement of adb_protocol.py is a scheduling point)
    s = sched.Sched(policy=policy, max_steps=60000, early_expiry=0.02,
                    trace_files=('openhtf/plugs/usb/adb_protocol.py',) if name == 'rwl' else ())
    log = []
    box = dict(log=log)

    def main():
      try:
        _main()
      except BaseException as e:  # pylint: disable=broad-except
        box['main_exc'] = repr(e)
        raise

    def _main():
      dev = ReactiveDevice({}, s)
      conn = usbfake.adb_protocol.AdbConnection.connect(dev, timeout_ms=5000)
      box['dev'] = dev

      def reader(st, tag, length=0):
        try:
          log.append((tag, 'read', st.read(length, timeout_ms=tmo)))
        except Exception as e:  # pylint: disable=broad-except
          log.append((tag, 'read-exc', type(e).__name__))

      def writer(st, tag, data):
        try:
          st.write(data, timeout_ms=tmo)
          log.append((tag, 'write-ok'))
        except Exception as e:  # pylint: disable=broad-except
          log.append((tag, 'write-exc', type(e).__name__))
      ths = []
      if name == 'rw1':          # one stream: a reader waiting for data, a writer waiting for its ack
        st = conn.open_stream('shell:x', timeout_ms=5000)
        dev.push(1, 'abc')
        ths = [threading.Thread(target=reader, args=(st, 'R'), name='R'),
               threading.Thread(target=writer, args=(st, 'W', 'xyz'), name='W')]
        box['expect'] = {('R', 'read', 'abc'), ('W', 'write-ok')}
      elif name == 'rwl':        # one stream: the reader consumes its buffer while the writer, waiting for its ack,
        st = conn.open_stream('shell:x', timeout_ms=5000)   # routes the next device message into that buffer
        dev.push(1, 'AB')
        dev.before_ack = ['CD']

        def reader_all(st_, tag):
          got = ''
          try:
            for _ in range(6):
              if len(got) >= 4:
                break
              got += st_.read(0, timeout_ms=tmo)
            log.append((tag, 'read', got))
          except Exception as e:  # pylint: disable=broad-except
            log.append((tag, 'read-exc', type(e).__name__))
        ths = [threading.Thread(target=reader_all, args=(st, 'R'), name='R'),
               threading.Thread(target=writer, args=(st, 'W', 'xyz'), name='W')]
        box['expect'] = {('R', 'read', 'ABCD'), ('W', 'write-ok')}
      elif name == 'rr2':        # two streams, one reader each, data arrives for the other stream first
        s1 = conn.open_stream('shell:1', timeout_ms=5000)
        s2 = conn.open_stream('shell:2', timeout_ms=5000)
        dev.push(2, 'two')
        dev.push(1, 'one')
        ths = [threading.Thread(target=reader, args=(s1, 'R1'), name='R1'),
               threading.Thread(target=reader, args=(s2, 'R2'), name='R2')]
        box['expect'] = {('R1', 'read', 'one'), ('R2', 'read', 'two')}
      elif name == 'rrw':        # two readers of one stream (1 byte each) + writer on another stream
        s1 = conn.open_stream('shell:1', timeout_ms=5000)
        s2 = conn.open_stream('shell:2', timeout_ms=5000)
        dev.push(1, 'a')
        dev.push(1, 'b')
        ths = [threading.Thread(target=reader, args=(s1, 'Ra', 1), name='Ra'),
               threading.Thread(target=reader, args=(s1, 'Rb', 1), name='Rb'),
               threading.Thread(target=writer, args=(s2, 'W', 'q'), name='W')]
        box['expect'] = None
      elif name == 'ro':         # a stream is opened while the reader of another stream has the reader role:
        s1 = conn.open_stream('shell:1', timeout_ms=5000)   # the new stream's OKAY and its first WRTE arrive
        dev.script[2] = ['two']                             # back to back and may both be routed by the other thread

        def opener():
          try:
            s2 = conn.open_stream('shell:2', timeout_ms=5000)
          except Exception as e:  # pylint: disable=broad-except
            log.append(('O', 'open-exc', type(e).__name__))
            return
          log.append(('O', 'open', s2 is not None))
          if s2 is not None:
            reader(s2, 'R2')

        def late1():
          import time
          time.sleep(1.0)
          dev.push(1, 'one')
        ths = [threading.Thread(target=reader, args=(s1, 'R1'), name='R1'),
               threading.Thread(target=opener, name='O'),
               threading.Thread(target=late1, name='D')]
        box['expect'] = {('R1', 'read', 'one'), ('O', 'open', True), ('R2', 'read', 'two')}
      elif name == 'rwt':        # one stream: the writer's ack never comes and its wait times out while it
        st = conn.open_stream('shell:x', timeout_ms=5000)   # holds the reader role; data for the reader arrives later
        dev.ack_writes = False

        def writer_short(st_, tag, data):
          try:
            st_.write(data, timeout_ms=500)
            log.append((tag, 'write-ok'))
          except Exception as e:  # pylint: disable=broad-except
            log.append((tag, 'write-timeout', type(e).__name__))

        def late():
          import time
          time.sleep(1.0)
          dev.push(1, 'abc')
        ths = [threading.Thread(target=reader, args=(st, 'R'), name='R'),
               threading.Thread(target=writer_short, args=(st, 'W', 'xyz'), name='W'),
               threading.Thread(target=late, name='D')]
        box['expect'] = None
      elif name == 'rr3':        # two streams: B's first message is read (and queued) by A's reader,
        s1 = conn.open_stream('shell:1', timeout_ms=5000)   # B's second one comes straight off the wire
        s2 = conn.open_stream('shell:2', timeout_ms=5000)
        dev.push(2, 'p')
        dev.push(1, 'x')
        dev.push(2, 'q')

        def reader_twice(st, tag):
          reader(st, tag + '.1')
          reader(st, tag + '.2')
        ths = [threading.Thread(target=reader, args=(s1, 'RA'), name='RA'),
               threading.Thread(target=reader_twice, args=(s2, 'RB'), name='RB')]
        box['expect'] = None
      for t in ths:
        t.start()
      for t in ths:
        t.join()
    s.run(main)
    return s, box
  return run


def judge(name, tmo, box):
  """verdict on one completed run"""
  bad = []
  if box.get('main_exc'):
    raise RuntimeError('harness: scenario main thread died: %s' % box['main_exc'])
  log = set(box['log'])
  for e in box['log']:
    if e[1].endswith('-exc'):
      bad.append('%s: a blocked %s raises %s although the device answered everything'
                 % (name, 'read' if e[1] == 'read-exc' else 'write', e[2]))
  if box.get('expect') is not None and not bad and log != box['expect']:
    bad.append('%s: reads/writes completed with %s, expected %s' % (name, sorted(log), sorted(box['expect'])))
  if name == 'rrw' and not bad:
    # two readers share one stream: between them they must obtain a prefix of what the
    # device wrote, each byte at most once (an empty read by the slower one is allowed)
    got = ''.join(sorted(''.join(e[2] for e in box['log'] if e[1] == 'read')))
    if got not in ('', 'a', 'ab'):
      bad.append('rrw: the two readers of one stream obtained %r, the device wrote a then b' % got)
  if name == 'rwt' and not bad:
    if ('R', 'read', 'abc') not in log:
      bad.append('rwt: the reader did not obtain the data that arrived after the writer of the same stream had timed out')
    if not any(e[0] == 'W' and e[1] == 'write-timeout' for e in box['log']):
      bad.append('rwt: a write whose acknowledgement never came did not raise by its timeout')
  if name == 'rr3' and not bad:
    rb = ''.join(e[2] for e in sorted(box['log']) if e[0].startswith('RB') and e[1] == 'read')
    ra = ''.join(e[2] for e in box['log'] if e[0] == 'RA' and e[1] == 'read')
    if rb != 'pq' or ra != 'x':
      bad.append('rr3: the reader of a stream obtained %r (the device wrote p then q to it), the other reader %r '
                 '(the device wrote x)' % (rb, ra))
  dev = box.get('dev')
  if dev is not None:
    wr = sum(1 for c in dev.host if c[0] == 'WRTE')
    acks = collections.Counter((c[1], c[2]) for c in dev.host if c[0] == 'OKAY')
    sent = {'rw1': {1: 1}, 'rwl': {1: 2}, 'rr2': {1: 1, 2: 1}, 'rrw': {1: 2}, 'rr3': {1: 1, 2: 2}, 'rwt': {1: 1}, 'ro': {1: 1, 2: 1}}[name]
    for n, cnt in sent.items():
      lid, rid = dev.lids[n]
      if acks.get((lid, rid), 0) != cnt:
        bad.append('%s: %d device WRTE(s) on a stream acknowledged by %d OKAY(s)'
                   % (name, cnt, acks.get((lid, rid), 0)))
  return bad


def explore_scenario(args):
  sys.argv = sys.argv[:1]
  name, tmo, bound, root, maxruns = args
  from vf import explore, usbfake  # noqa: F401
  out = dict(n=0, bad=[], outcomes=collections.Counter())
  for picks, decisions, box, failure in explore.explore(scenario(name, tmo), bound, max_runs=maxruns, root=root):
    out['n'] += 1
    if failure is not None:
      sig = '%s (timeout_ms=%s): %s - threads never return (lost wake-up)' % (name, tmo, type(failure).__name__)
      out['outcomes'][sig] += 1
      if len(out['bad']) < 3:
        out['bad'].append((sig, dict(scenario=name, timeout_ms=tmo, schedule=picks, detail=str(failure)[:300])))
      continue
    for b in judge(name, tmo, box):
      out['outcomes'][b] += 1
      if len(out['bad']) < 6:
        out['bad'].append((b + ' (timeout_ms=%s)' % tmo, dict(scenario=name, timeout_ms=tmo, schedule=picks)))
  return out


# ----------------------------------------------------------------------

def design(chk):
  res = tlc.must_pass(tlc.run('ReadUntil', 'ReadUntil_fixed.cfg', workers=1), 'ReadUntil (repaired protocol)')
  chk.add_tlc('ReadUntil: every release of the reader lock followed by notify', res)
  for cfgname in ('pinned', 'half'):
    neg = tlc.run('ReadUntil', 'ReadUntil_%s.cfg' % cfgname, workers=1)
    if not neg.deadlock:
      raise tlc.TLCError('sensitivity: ReadUntil_%s should deadlock' % cfgname)
  res_t = tlc.must_pass(tlc.run('ReadUntil', 'ReadUntil_timeout.cfg', workers=1), 'ReadUntil (lock holder gives up by timeout)')
  chk.add_tlc('ReadUntil: the reader role is given up by a timeout, waiters still woken', res_t)
  neg = tlc.run('ReadUntil', 'ReadUntil_noexitnotify.cfg', workers=1)
  if not neg.deadlock:
    raise tlc.TLCError('sensitivity: ReadUntil_noexitnotify should deadlock')
  chk.cov['model_sensitivity_3'] = ('ReadUntil.tla without the notification when the reader role is given up by a '
                                    'timeout/exception deadlocks (waiting reader never woken)')
  chk.cov['model_sensitivity'] = ('ReadUntil.tla with the protocol as originally pinned (notify before releasing the '
                                  'reader lock) and with the half repair deadlocks in TLC; the full repair terminates')
  res = tlc.must_pass(tlc.run('ReadForStream_mc', 'ReadForStream_mc.cfg', workers=4), 'ReadForStream design check')
  chk.add_tlc('ReadForStream: 3 streams x 2 messages, in-order delivery + every message delivered', res)
  neg = tlc.run('ReadForStream_mc', 'ReadForStream_norecheck.cfg', workers=1)
  if 'InOrder' not in neg.invariant_violated:
    raise tlc.TLCError('sensitivity: ReadForStream without the queue re-check should violate InOrder')
  chk.cov['model_sensitivity_2'] = ('ReadForStream.tla without the second look at the queue under the reader lock '
                                    'violates InOrder')
  cfg = muxlib.CFG % dict(limit=4, streams=2, ops=4, wire=2, dev=2, illegal='"AUTH"', readlens='0, 1',
                          view='VIEW DesignView', emit='CONSTRAINT Constraint')
  res = tlc.must_pass(tlc.run('MCMux', cfg, gen={'MCMux.tla': muxlib.module([('a',), ('a', 'b', 'a')])},
                              coverage=True, heap='6g'), 'AdbMux design check')
  cov = res.coverage()
  for a in ('Open', 'Read', 'Write', 'Close', 'DevWrte', 'DevClse', 'DevOkay', 'DevUnknown', 'DevIllegal'):
    if not cov.get(a, (0, 0))[1]:
      raise tlc.TLCError('vacuity: action %s never taken' % a)
  chk.add_tlc('AdbMux design', res, action_counts={k: v[1] for k, v in cov.items()})


def emit_replay(chk, pool, limit, ops, wire, dev, dataseqs, illegal='"AUTH"', streams=2, readlens='0',
                devseqs=(('a',), ('b',))):
  cfg = muxlib.CFG % dict(limit=limit, streams=streams, ops=ops, wire=wire, dev=dev, illegal=illegal, view='',
                          readlens=readlens, emit='CONSTRAINT Constraint\nINVARIANT Emit')
  res = tlc.must_pass(tlc.run('MCMux', cfg, gen={'MCMux.tla': muxlib.module(dataseqs, devseqs)}, workers=8, heap='6g'),
                      'AdbMux emit')
  chunks = tlaval.split_prints(res.out, 'HIST', 56)
  outs = pool.map(muxlib.work, [(c, limit) for c in chunks])
  n = sum(o['n'] for o in outs)
  chk.add_tlc('AdbMux emit', res, histories=n, limit=limit, ops=ops)
  chk.traces += n
  chk.nontrivial += sum(o['nontrivial'] for o in outs)
  for o in outs:
    for sig, det in o['bad']:
      chk.violation(muxlib.generalise(sig), det)
    if o['sample']:
      chk.sample(dict(part='mux history', history=o['sample']))
  chk.log('%d multiplexer histories replayed' % n)


def dfs(chk, pool, bound, maxruns):
  jobs = []
  for name in ('rw1', 'rr2', 'rrw', 'rr3', 'rwt', 'ro'):
    for tmo in (None, 2000):
      jobs.append((name, tmo, bound, (), maxruns))
  jobs.append(('rwl', None, 1, (), maxruns))
  outs = pool.map(explore_scenario, jobs)
  total = 0
  for j, o in zip(jobs, outs):
    total += o['n']
    chk.traces += o['n']
    chk.nontrivial += o['n']
    for sig, det in o['bad']:
      chk.violation(sig, det)
    chk.tlc_runs.append(dict(name='dfs %s timeout=%s bound=%d' % (j[0], j[1], bound), schedules=o['n'],
                             outcomes=dict(o['outcomes'])))
  chk.sample(dict(part='schedules', scenarios=['rw1', 'rr2', 'rrw', 'rr3', 'rwt', 'ro'], explored=total))
  chk.log('%d schedules of reader/writer threads explored' % total)


def expiry_probe(_):
  """the deadline of the thread that holds the reader role expires exactly between the header and the payload of
  a WRTE addressed to another stream: that message is still routed and acknowledged ("without loss", "every
  device WRTE is acknowledged by exactly one OKAY"); only the caller's own read may time out"""
  sys.argv = sys.argv[:1]
  from checks import muxlib
  from vf import sched, usbfake
  box = dict(bad=[])

  def main():
    ap, to = usbfake.adb_protocol, usbfake.timeouts
    dev = muxlib.Device(4096)
    conn = ap.AdbConnection.connect(dev, timeout_ms=5000)
    dev.open_reply = 'OKAY'
    s1 = conn.open_stream('shell:1', timeout_ms=5000)
    s2 = conn.open_stream('shell:2', timeout_ms=5000)
    deadline = to.PolledTimeout.from_millis(60000)
    hdr2 = usbfake.frame('WRTE', 102, dev.lids[2], 'two')
    dev.rx += hdr2 + usbfake.frame('WRTE', 101, dev.lids[1], 'one')
    orig_read = dev.read

    def read(length, timeout_ms=None):
      chunk = orig_read(length, timeout_ms)
      if chunk == hdr2[0]:
        deadline.expire()
      return chunk
    dev.read = read
    got = {}
    try:
      got['s1.first'] = ('read', s1.read(timeout_ms=deadline))
    except Exception as e:  # pylint: disable=broad-except
      got['s1.first'] = ('raised', type(e).__name__)
    for name, st in (('s2', s2), ('s1', s1)):
      try:
        got[name] = ('read', st.read(timeout_ms=1000))
      except Exception as e:  # pylint: disable=broad-except
        got[name] = ('raised', type(e).__name__)
    acks = sorted((m[1], m[2]) for m in dev.tx if m[0] == 'OKAY')
    want_acks = sorted([(dev.lids[1], 101), (dev.lids[2], 102)])
    if got['s2'] != ('read', 'two'):
      box['bad'].append('a WRTE for another stream whose header was read as the reading thread\'s deadline expired is lost: '
                        'that stream\'s read gives %s' % (got['s2'],))
    s1_data = ''.join(v[1] for k, v in got.items() if k.startswith('s1') and v[0] == 'read')
    if s1_data != 'one':
      box['bad'].append('the stream whose reader timed out between header and payload of another stream\'s message '
                        'does not obtain its own data afterwards (%r)' % (got,))
    if acks != want_acks:
      box['bad'].append('device WRTEs acknowledged by %s, expected %s' % (acks, want_acks))
  s = sched.Sched(max_steps=100000)
  try:
    s.run(main)
  except (sched.Deadlock, sched.StepBudget) as e:
    return ['expiry probe: reads never return (%s)' % type(e).__name__]
  return box['bad']


def main(chk):
  design(chk)
  quick = chk.tier == 'quick'
  with mp.Pool(14, maxtasksperchild=20) as pool:
    if quick:
      emit_replay(chk, pool, 4, 3, 2, 2, [('a',), ('a', 'b', 'a')])
      emit_replay(chk, pool, 4, 4, 2, 1, [('a', 'b', 'a')], illegal='"SYNC"')
      # read(n): partial reads of multi-symbol device messages, several messages buffered while a write waits for its ack
      emit_replay(chk, pool, 4, 4, 3, 2, [('a',)], streams=1, readlens='0, 1, 2', devseqs=(('a', 'b'), ('a',)))
      dfs(chk, pool, 1, 4000)
      probe = pool.apply(expiry_probe, (0,))
    else:
      emit_replay(chk, pool, 4, 4, 2, 2, [('a',), ('a', 'b', 'a')])
      emit_replay(chk, pool, 5, 5, 1, 1, [('a', 'b', 'a', 'b', 'a')], illegal='"CNXN", "OPEN"', streams=3)
      emit_replay(chk, pool, 4, 4, 3, 3, [('a',)], streams=1, readlens='0, 1, 2, 3', devseqs=(('a', 'b'), ('a',), ('b', 'b', 'a')))
      dfs(chk, pool, 2, 60000)
      probe = pool.apply(expiry_probe, (0,))
    for sig in probe:
      chk.violation(sig, dict(scenario='deadline between header and payload'))
    chk.traces += 1
  chk.cov['rule'] = ('mux histories: host operations interleaved with device messages over 2-3 streams, enumerated by '
                     'TLC; schedules: every interleaving with <= 1 (quick) / 2 (thorough) preemptions of reader/writer '
                     'threads in three scenarios, with and without timeouts; every history/schedule is distinct')
  chk.assumptions += ['STREAM_ID_LIMIT is set to the model constant for the replay (module constant)',
                      'preemption only at synchronisation operations and transport calls; virtual time',
                      'payloads are short str objects; maxdata=2 for chunking']
  return chk.finish(explanation='AdbMux.tla / ReadUntil.tla checked by TLC; emitted multiplexer histories replayed on the '
                    'real AdbConnection; real reader/writer threads explored by preemption-bounded DFS', exhaustive=True)


def replay(path):
  with open(path) as fh:
    sc = json.load(fh)['scenario']
  sys.argv = sys.argv[:1]
  if 'history' in sc:
    bad = muxlib.replay_history(sc['history'], sc['limit'])
    if bad:
      print('VIOLATION property=C14 replay=%s\n  what: %s' % (path, bad[0][0]))
      return 1
    print('replay: history conforms')
    return 0
  from vf import explore, sched
  name, tmo = sc['scenario'], sc['timeout_ms']
  try:
    s, box = scenario(name, tmo)(sched.Replay(sc['schedule']))
    bad = judge(name, tmo, box)
  except (sched.Deadlock, sched.StepBudget) as e:
    bad = ['%s: %s' % (name, type(e).__name__)]
  if bad:
    print('VIOLATION property=C14 replay=%s\n  what: %s' % (path, bad[0]))
    return 1
  print('replay: schedule completes correctly')
  return 0
