"""C16 - fastboot command/response state machine and exact image transfer.
Spec: specs/Fastboot.tla.  TLC checks SinglePacketCommand / ChunkAtMostK /
ExactImageInOrder / Contiguous / ProgressCumulative ... for every device script
up to the length bound and emits every run; each is replayed against a scripted
fake bootloader (spec->code)."""
import itertools
import json
import multiprocessing as mp
import sys

from vf import common, tlaval, tlc
from vf.progs import tla as to_tla

K = 1024
SIZES = [0, 1, 1023, 1024, 1025, 2048, 2049, 3072]
PKTS = [('INFO', 1), ('INFO', 2), ('OKAY', 1), ('OKAY', 2), ('FAIL', 1), ('DATA', 1), ('DATA', 0), ('JUNK', 1)]
CMDS = [('getvar', 'version'), ('getvar', ''), ('flash', ''), ('erase', 'boot'), ('flash', 'system'), ('oem', 'poweroff'),
        ('continue', ''), ('reboot', ''), ('reboot', 'recovery'), ('reboot-bootloader', '')]


def scripts(maxlen):
  out = [()]
  for n in range(1, maxlen + 1):
    out += list(itertools.product(PKTS, repeat=n))
  return out


def module(simple_scripts, dl_scripts, sizes):
  return ('---- MODULE MCFastboot ----\nEXTENDS Fastboot\n'
          'MCScripts == %s\nMCCmds == %s\nMCSizes == %s\n====\n' % (
              to_tla(frozenset(simple_scripts) | frozenset(dl_scripts)),
              to_tla(frozenset(CMDS) | {('download', '')}),
              to_tla(frozenset(sizes) | {0})))


CFG = '''CONSTANT K = 1024
CONSTANT Sizes <- MCSizes
CONSTANT Scripts <- MCScripts
CONSTANT Cmds <- MCCmds
SPECIFICATION Spec
INVARIANT SinglePacketCommand
INVARIANT ChunkAtMostK
INVARIANT ExactImageInOrder
INVARIANT Contiguous
INVARIANT NoBytesUnlessDataMatches
INVARIANT ProgressCumulative
INVARIANT OkOnlyAfterOkay
INVARIANT Emit
CHECK_DEADLOCK FALSE
'''


def text(kind, i):
  """payload text of packet number i of a kind; number 2 is the blank packet (header only)"""
  if i == 2:
    return ''
  t = {'INFO': 'info-%d', 'OKAY': 'payload-%d', 'FAIL': 'reason-%d'}[kind] % i
  # device text is arbitrary: in every second history it carries per-cent signs and format directives
  return t + FLAVOUR[0]


FLAVOUR = ['']


def concrete_packet(p, size):
  kind, i = p
  if kind in ('INFO', 'OKAY', 'FAIL'):
    return kind + text(kind, i)
  if kind == 'DATA':
    return 'DATA%08x' % (size if i == 1 else size + 1)
  return 'WXYZjunk' + FLAVOUR[0]


def image(size):
  return ''.join(chr(32 + (i * 7 + i // 251) % 90) for i in range(size))


def replay_one(h):
  from vf import usbfake
  fp = usbfake.fastboot_protocol
  ue = usbfake.usb_exceptions
  bad = []
  size = h['size']
  FLAVOUR[0] = ' 5% left (%s, %d, 100%)' if len(h['script']) % 2 else ''
  rx = [concrete_packet(tuple(p), size) for p in h['script']]

  class Usb:
    def __init__(self):
      self.tx = []
      self.rx = list(rx)
    def write(self, data, timeout_ms=None):
      self.tx.append(data)
    def read(self, n, timeout_ms=None):
      if not self.rx:
        raise usbfake.timeout_error()
      return self.rx.pop(0)
    def close(self):
      pass
  usb = Usb()
  fb = fp.FastbootCommands(usb)
  infos, prog = [], []
  raising = (len(h['script']) % 2 == 1)

  def info_cb(m):
    infos.append((m.header, m.message))

  def prog_cb(cur, total):
    prog.append((cur, total))
    if raising:
      raise RuntimeError('progress callback raises')
  # the same command is issued twice on one FastbootCommands object, the device answering the same way:
  # a command keeps nothing from an earlier one (packets written, callbacks, result are those of the model both times)
  for rnd in (1, 2):
    if rnd == 2:
      if bad:
        break
      del usb.tx[:], infos[:], prog[:]
      usb.rx = list(rx)
    old_chunk = fp.FASTBOOT_DOWNLOAD_CHUNK_SIZE_KB
    fp.FASTBOOT_DOWNLOAD_CHUNK_SIZE_KB = K // 1024
    import io
    try:
      try:
        if h['mode'] == 'download':
          img = image(size)
          r = fb.download(io.StringIO(img), source_len=size, info_cb=info_cb, progress_callback=prog_cb)
        else:
          name, arg = h['cmd']
          if name == 'getvar':
            r = fb.get_var(arg, info_cb=info_cb)
          elif name == 'oem':
            r = fb.oem(arg, info_cb=info_cb)
          elif name == 'flash':
            r = fb.flash(arg, info_cb=info_cb)
          else:
            r = fb._simple_command(name, arg=arg or None, info_cb=info_cb)
        got = ('ok', r)
      except Exception as e:  # pylint: disable=broad-except
        got = ('error', type(e).__name__, str(e))
    finally:
      fp.FASTBOOT_DOWNLOAD_CHUNK_SIZE_KB = old_chunk
    # result
    exp = h['result']
    if exp[0] == 'ok':
      want = ('ok', text('OKAY', exp[1]))
      if got[:2] != want:
        bad.append('command returned %r, model says %r' % (got[:2], want))
    else:
      if got[0] != 'error' or got[1] != exp[1]:
        bad.append('command %s, model says it raises %s' % (
            'returned' if got[0] == 'ok' else 'raised ' + got[1], exp[1]))
      elif exp[1] == 'FastbootRemoteFailureError' and text('FAIL', exp[2]) not in got[2]:
        bad.append('remote failure error does not carry the device text')
    # packets
    exp_sent = []
    for s in h['sent']:
      if s[0] == 'cmd':
        if h['mode'] == 'download':
          exp_sent.append('download:%08x' % size)
        else:
          # get_var / flash always pass their argument, also an empty one: "command[:arg]" with the argument given
          exp_sent.append(s[1] + (':' + s[2] if (s[2] or s[1] in ('getvar', 'flash')) else '') if s[1] != 'oem' else 'oem ' + s[2])
      else:
        exp_sent.append(image(size)[s[1]:s[1] + s[2]])
    if usb.tx != exp_sent:
      if len(usb.tx) != len(exp_sent):
        bad.append('host sent %d packets, model says %d' % (len(usb.tx), len(exp_sent)))
      elif usb.tx[0] != exp_sent[0]:
        bad.append('command packet is %r, model says %r' % (usb.tx[0][:40], exp_sent[0][:40]))
      else:
        bad.append('image chunks differ from the model (sizes %s, model %s)'
                   % ([len(x) for x in usb.tx[1:]], [len(x) for x in exp_sent[1:]]))
    exp_infos = [(p[0], text(p[0], p[1])) for p in h['infos']]
    if infos != exp_infos:
      bad.append('info callback saw %s, model says %s' % (infos, exp_infos))
    if prog != [tuple(p) for p in h['prog']]:
      bad.append('progress callback saw %s, model says %s' % (prog, h['prog']))
    if bad and rnd == 2:
      bad[:] = ['second issue of the same command on one object: ' + b for b in bad]
  return bad


def _work(text):
  sys.argv = sys.argv[:1]
  hists = tlaval.parse_many(text, 'HIST')
  out = dict(n=0, bad=[], nontrivial=0, sample=None)
  for (h,) in hists:
    out['n'] += 1
    if len(h['script']) >= 2 or h['mode'] == 'download':
      out['nontrivial'] += 1
    bad = replay_one(h)
    if bad and len(out['bad']) < 10:
      out['bad'].append((bad[0], h))
    if out['sample'] is None and h['mode'] == 'download' and len(h['sent']) > 2:
      out['sample'] = dict(h, sent=[s if s[0] == 'cmd' else ['data', s[1], s[2]] for s in h['sent']])
  return out


def main(chk):
  quick = chk.tier == 'quick'
  simple = scripts(3)
  dl = scripts(3 if quick else 4)
  sizes = SIZES if not quick else SIZES[:7]
  # shard by script subsets to keep TLC runs small and parallel
  import concurrent.futures as cf
  shards = [dl[i::12] for i in range(12)]

  def one(sh):
    return tlc.run('MCFastboot', CFG, gen={'MCFastboot.tla': module(simple[:40] if sh is not shards[0] else simple, sh, sizes)},
                   workers=2, heap='3g')
  total = 0
  with mp.Pool(14) as pool, cf.ThreadPoolExecutor(6) as ex:
    pend = []
    for fu in cf.as_completed([ex.submit(one, sh) for sh in shards]):
      res = tlc.must_pass(fu.result(), 'Fastboot design/emit')
      chk.states += res.distinct
      chk.transitions += res.generated
      for c in tlaval.split_prints(res.out, 'HIST', 6):
        pend.append(pool.apply_async(_work, (c,)))
    for p in pend:
      o = p.get()
      total += o['n']
      chk.traces += o['n']
      chk.nontrivial += o['nontrivial']
      if o['sample']:
        chk.sample(o['sample'])
      for sig, h in o['bad']:
        import re
        chk.violation(re.sub(r'\[.*|\(.*|\d+', '', sig)[:120], dict(mismatch=sig, run=h))
  chk.tlc_runs.append(dict(name='design+emit', shards=len(shards), runs=total))
  chk.log('%d runs replayed against the fake bootloader' % total)
  # binding self-test
  h = dict(mode='simple', cmd=['getvar', 'version'], size=0, script=[['OKAY', 1]], sent=[['cmd', 'getvar', 'version']],
           infos=[['OKAY', 1]], prog=[], result=['ok', 2])
  if not replay_one(h):
    raise tlc.TLCError('selftest: corrupted expectation not detected')
  chk.cov['binding_selftest'] = 'corrupted expected payload detected'
  chk.cov['rule'] = ('device response scripts over {INFO,OKAY,DATA(match/mismatch),FAIL,junk} up to the length bound x '
                     '8 commands / 8 image sizes around multiples of the chunk size; non-trivial = download or >=2 responses')
  chk.assumptions += ['the module constant FASTBOOT_DOWNLOAD_CHUNK_SIZE_KB (a documented flag target) is set to 1 (1024-byte chunks)',
                      'image bytes are a fixed printable pattern (byte fidelity is decided on this concretisation only)',
                      'the fake transport exchanges str objects, as the Python-2-era code expects']
  return chk.finish(explanation='Fastboot.tla invariants checked by TLC on every run; every run replayed on the real '
                    'FastbootCommands over a scripted fake bootloader: packets, chunks, callbacks, result/exception',
                    exhaustive=True)


def replay(path):
  with open(path) as fh:
    sc = json.load(fh)['scenario']
  sys.argv = sys.argv[:1]
  bad = replay_one(sc['run'])
  if bad:
    print('VIOLATION property=C16 replay=%s\n  what: %s' % (path, bad[0]))
    return 1
  print('replay: run conforms')
  return 0
