"""C17 - file output is atomic.  Spec: specs/AtomicPublish.tla (+ _trace).

1. TLC: AtomicDest / SuccessPublishes / FailureKeepsOld / NoStagingLeftBehind on
   the publish protocol with faults at every point (state invariants cover every
   crash point); the close-and-move-in-finally protocol violates AtomicDest.
2. code->spec: for OutputToFile (chunked serializer, default pickle),
   OutputToJSON and util.atomic_write, with every injected fault (serializer
   raises after k chunks, k-th write raises, close raises) and with/without a
   previous destination, the sequence of file-system operations is recorded and
   validated by TLC against AtomicPublish_trace.tla: AtomicDest after every
   operation, SuccessPublishes / FailureKeepsOld at the end.
3. the file-system model is bound to reality: for every prefix of every recorded
   operation sequence a forked child is killed (os._exit) right after that
   operation and the destination is inspected."""
import io
import json
import os
import shutil
import sys
import tempfile

from vf import common, fsrec, tlc, tracecheck

OLD = b'OLD COMPLETE CONTENT\n'


def make_record(attach=False):
  import openhtf as htf
  from openhtf.util import console_output
  console_output.CLI_QUIET = True

  def p(test):
    test.logger.info('hello')
    if attach:
      test.attach('calibration.bin', b'\x00\x01\x02payload' * 16)
  t = htf.Test(htf.PhaseOptions(name='p')(p))
  out = []
  t.add_output_callbacks(out.append)
  t.execute()
  return out[0]


class SerializerFault(Exception):
  pass


def targets():
  from openhtf.output import callbacks
  from openhtf.output.callbacks import json_factory
  from openhtf.util import atomic_write

  def chunked(fail_after, exc=SerializerFault):
    class Chunked(callbacks.OutputToFile):
      @staticmethod
      def serialize_test_record(test_rec):
        for i in range(3):
          if fail_after is not None and i == fail_after:
            raise exc('serializer raises after %d chunks' % i)
          yield '{chunk%d}' % i
    return Chunked

  def run_cb(cls_factory):
    def run(rec, pattern, dest):
      cb = cls_factory(pattern)
      cb(rec)
    return run

  def run_atomic(fail_after, filesync):
    def run(rec, pattern, dest):
      with atomic_write.atomic_write(dest, filesync=filesync) as f:
        for i in range(3):
          if fail_after is not None and i == fail_after:
            raise SerializerFault('body raises after %d writes' % i)
          f.write('{chunk%d}' % i)
    return run
  out = []
  for fa in (None, 0, 1, 2):
    out.append(('OutputToFile/chunked serializer%s' % ('' if fa is None else ' raising after %d chunks' % fa),
                run_cb(chunked(fa)), b'{chunk0}{chunk1}{chunk2}', fa is not None))
  # the interruption need not be an Exception: Ctrl-C, interpreter exit, a thread kill
  # (threads.ThreadTerminationError is a SystemExit) landing inside the callback
  from openhtf.util import threads
  for exc in (KeyboardInterrupt, SystemExit, threads.ThreadTerminationError, GeneratorExit):
    for fa in (0, 2):
      out.append(('OutputToFile/chunked serializer interrupted by %s after %d chunks' % (exc.__name__, fa),
                  run_cb(chunked(fa, exc)), b'{chunk0}{chunk1}{chunk2}', True))
  # chunks of very different sizes (a 2 MiB chunk behind small ones, as an inlined attachment produces):
  # "on success the destination holds exactly the serialized record"
  big = 'B' * (2 << 20)

  class ChunkedBig(callbacks.OutputToFile):
    @staticmethod
    def serialize_test_record(test_rec):
      yield '{head}'
      yield '{small}'
      yield big
      yield '{tail}'
  out.append(('OutputToFile/chunked serializer with a 2 MiB chunk', run_cb(ChunkedBig),
              ('{head}{small}' + big + '{tail}').encode(), False))
  out.append(('OutputToFile/default pickle serializer', run_cb(callbacks.OutputToFile), 'pickle', False))
  out.append(('OutputToJSON', run_cb(json_factory.OutputToJSON), 'json', False))
  # the record's attachment files are gone when the JSON callback runs (CloseAttachments registered before it):
  # reading the attachment fails in the middle of the stream, after chunks were handed to the staging file
  closed = make_record(attach=True)
  callbacks.CloseAttachments()(closed)

  def run_closed(rec, pattern, dest):
    json_factory.OutputToJSON(pattern)(closed)
  out.append(('OutputToJSON/attachments closed before the callback', run_closed, 'json', True))
  for fa in (None, 0, 2):
    for fs in (False, True):
      out.append(('atomic_write%s%s' % ('' if fa is None else ' body raising after %d writes' % fa,
                                        ' filesync' if fs else ''),
                  run_atomic(fa, fs), b'{chunk0}{chunk1}{chunk2}', fa is not None))
  return out


def expected_content(kind, rec):
  from openhtf.output import callbacks
  from openhtf.output.callbacks import json_factory
  if kind == 'pickle':
    return None      # pickles of one record differ only by object identity; compare by loading
  if kind == 'json':
    buf = io.StringIO()
    for c in json_factory.OutputToJSON(buf).serialize_test_record(rec):
      buf.write(c)
    return buf.getvalue().encode()
  return kind


def one_case(name, run, expect, serializer_fails, rec, old, fail_kind, fail_n, crash_at=None):
  """runs one case in this process; returns (ops, dest state, error class)"""
  scratch = tempfile.mkdtemp(prefix='vf-c17-')
  try:
    tempfile.tempdir = scratch
    dest = os.path.join(scratch, 'UNKNOWN_DUT.out')
    pattern = os.path.join(scratch, '{dut_id}.out')
    if old:
      with open(dest, 'wb') as fh:
        fh.write(OLD)
    err = None
    with fsrec.Recorder(scratch, dest, crash_at=crash_at, fail_kind=fail_kind, fail_n=fail_n) as r:
      try:
        run(rec, pattern, dest)
      except BaseException as e:  # pylint: disable=broad-except
        err = type(e).__name__
    content = None
    if os.path.exists(dest):
      with open(dest, 'rb') as fh:
        content = fh.read()
    left = [f for f in os.listdir(scratch) if f != 'UNKNOWN_DUT.out']
    return r.ops, content, err, left
  finally:
    tempfile.tempdir = None
    shutil.rmtree(scratch, ignore_errors=True)


def plain_case(run, rec, old):
  """the fault-free call without the recording layer (whose file proxy flushes after every write and
  would hide anything that depends on buffering): returns the destination's content"""
  scratch = tempfile.mkdtemp(prefix='vf-c17p-')
  try:
    tempfile.tempdir = scratch
    dest = os.path.join(scratch, 'UNKNOWN_DUT.out')
    if old:
      with open(dest, 'wb') as fh:
        fh.write(OLD)
    run(rec, os.path.join(scratch, '{dut_id}.out'), dest)
    with open(dest, 'rb') as fh:
      return fh.read()
  finally:
    tempfile.tempdir = None
    shutil.rmtree(scratch, ignore_errors=True)


def classify(content, expect, rec):
  if content is None:
    return 'absent'
  if content == OLD:
    return 'old'
  if expect is None:
    import pickle
    try:
      r = pickle.loads(content)
      return 'new' if r.dut_id == rec.dut_id and len(r.phases) == len(rec.phases) else 'partial'
    except Exception:  # pylint: disable=broad-except
      return 'partial'
  return 'new' if content == expect else 'partial'


def crash_probe(name, run, expect, sf, rec, old, fail_kind, fail_n, k):
  """fork; the child dies right after its k-th file-system operation"""
  scratch = tempfile.mkdtemp(prefix='vf-c17c-')
  dest = os.path.join(scratch, 'UNKNOWN_DUT.out')
  pattern = os.path.join(scratch, '{dut_id}.out')
  if old:
    with open(dest, 'wb') as fh:
      fh.write(OLD)
  pid = os.fork()
  if pid == 0:
    try:
      tempfile.tempdir = scratch
      with fsrec.Recorder(scratch, dest, crash_at=k, fail_kind=fail_kind, fail_n=fail_n):
        try:
          run(rec, pattern, dest)
        except BaseException:  # pylint: disable=broad-except
          pass
    finally:
      os._exit(78)
  os.waitpid(pid, 0)
  content = None
  if os.path.exists(dest):
    with open(dest, 'rb') as fh:
      content = fh.read()
  shutil.rmtree(scratch, ignore_errors=True)
  return classify(content, expect, rec)


def to_events(ops):
  ev = []
  for kind, det in ops:
    if kind in ('create', 'write', 'fault', 'close', 'rename', 'remove', 'direct_write'):
      ev.append(dict(e=kind))
  return ev


def reuse_cases(rec):
  """one callback instance writes several records, as a station does: a call that fails part-way (serializer
  fault, interruption, failing write) publishes nothing - neither at once nor as part of what a later
  successful call publishes ("on success the destination holds exactly the serialized record")"""
  from openhtf.output import callbacks
  bad = []
  n = 0
  for kind in ('serializer', 'interrupt', 'write'):
    for fail_after in (1, 2):
      calls = [0]
      exc = dict(serializer=SerializerFault, interrupt=KeyboardInterrupt, write=OSError)[kind]

      class FailingAtomic(callbacks.Atomic):
        def write(self, data):
          self.nw = getattr(self, 'nw', 0) + 1
          if kind == 'write' and calls[0] == 1 and self.nw == fail_after + 1:
            raise OSError('write fails')
          return callbacks.Atomic.write(self, data)

      class Chunked(callbacks.OutputToFile):
        @staticmethod
        def serialize_test_record(test_rec):
          calls[0] += 1
          k = calls[0]
          for i in range(3):
            if kind != 'write' and k == 1 and i == fail_after:
              raise exc('serializer raises after %d chunks' % i)
            yield '{run%d-chunk%d}' % (k, i)

        @staticmethod
        def open_file(filename):
          return FailingAtomic(filename)
      scratch = tempfile.mkdtemp(prefix='vf-c17r-')
      try:
        tempfile.tempdir = scratch
        # the three records differ in a field of the file name pattern only (same DUT, same start time): "the
        # file name is the pattern formatted with the record's fields"
        cb = Chunked(os.path.join(scratch, '{dut_id}.{metadata[test_name]}.out'))
        seen = []
        for k in (1, 2, 3):
          import copy
          rk = copy.copy(rec)
          rk.metadata = dict(rec.metadata, test_name='run%d' % k)
          try:
            cb(rk)
            err = None
          except BaseException as e:  # pylint: disable=broad-except
            err = type(e).__name__
          files = {}
          for f in sorted(os.listdir(scratch)):
            if f.endswith('.out'):
              files[f.split('.')[-2]] = open(os.path.join(scratch, f), 'rb').read()
          seen.append((err, files))
        n += 1
        c2, c3 = b'{run2-chunk0}{run2-chunk1}{run2-chunk2}', b'{run3-chunk0}{run3-chunk1}{run3-chunk2}'
        want = [(exc.__name__, {}), (None, {'run2': c2}), (None, {'run2': c2, 'run3': c3})]
        if seen != want:
          what = 'the call that failed published something' if seen[0] != want[0] else \
              'a successful call after a failed one does not publish exactly its own serialized record under its own name'
          bad.append(('OutputToFile: one callback instance used for three records, the first call failing (%s): %s'
                      % (kind, what), dict(kind=kind, fail_after=fail_after,
                                           seen=[(e, {k_: v_.decode('latin1')[:80] for k_, v_ in c.items()}) for e, c in seen])))
      finally:
        tempfile.tempdir = None
        shutil.rmtree(scratch, ignore_errors=True)
  return n, bad


def main(chk):
  res = tlc.must_pass(tlc.run('AtomicPublish', 'AtomicPublish_mc.cfg', coverage=True, workers=1), 'AtomicPublish design')
  chk.add_tlc('AtomicPublish design', res)
  neg = tlc.run('AtomicPublish', 'AtomicPublish_neg.cfg', workers=1)
  if 'AtomicDest' not in neg.invariant_violated:
    raise tlc.TLCError('sensitivity: publish-on-error protocol should violate AtomicDest')
  chk.cov['model_sensitivity'] = 'AtomicPublish.tla with PublishOnError=TRUE (close-and-move in finally) violates AtomicDest'
  sys.argv = sys.argv[:1]
  rec = make_record()
  traces, meta = [], []
  crash_bad = []
  ncrash = 0
  quick = chk.tier == 'quick'
  for name, run, exp_kind, sfails in targets():
    expect = expected_content(exp_kind, rec)
    # fault-free reference run to learn the number of writes
    ops0, content0, err0, left0 = one_case(name, run, expect, sfails, rec, False, None, None)
    nwrites = sum(1 for o in ops0 if o[0] == 'write')
    if not sfails:
      for old in (False, True):
        got = classify(plain_case(run, rec, old), expect, rec)
        if got != 'new':
          crash_bad.append(('%s: on success the destination does not hold exactly the serialized record (%s)'
                            % (name.split('/')[0].split(' ')[0], got), dict(target=name, old=old)))
    faults = [(None, None)]
    if not sfails:
      ws = sorted(set([1, 2, max(1, nwrites // 2), nwrites])) if nwrites else []
      faults += [('write', j) for j in ws if j <= nwrites] + [('close', 1)]
    for old in (False, True):
      for fk, fn in faults:
        ops, content, err, left = one_case(name, run, expect, sfails, rec, old, fk, fn)
        failed = sfails or fk is not None
        ev = to_events(ops)
        if sfails and not any(e['e'] == 'fault' for e in ev):
          # the serializer fault is not a file-system operation: place it where it occurred
          pos = max([i for i, e in enumerate(ev) if e['e'] in ('create', 'write')], default=-1) + 1
          ev.insert(pos, dict(e='fault'))
        tid = len(traces) + 1
        # n: chunks of the complete serialization (unknown for the record whose serialization cannot complete:
        # whatever gets published there is not it)
        traces.append(dict(id=tid, n=max(nwrites, 1) if not sfails else (1000000 if 'attachments closed' in name else 3),
                           old=old, ev=ev))
        meta.append(dict(id=tid, target=name, old=old, fault=[fk, fn], error=err,
                         ops=[o[0] for o in ops], final=classify(content, expect, rec), leftover=left))
        final = classify(content, expect, rec)
        want = ('old' if old else 'absent') if failed else 'new'
        if final != want:
          crash_bad.append(('%s: after the call returned the destination holds %s content, expected %s'
                            % (name.split('/')[0].split(' ')[0], final, want), meta[-1]))
        if left:
          chk.note('%s leaves the staging file behind after a fault' % name.split('/')[0].split(' ')[0])
        # real crash points
        step = 1 if (not quick or len(ops) <= 12) else max(1, len(ops) // 10)
        for k in list(range(1, len(ops) + 1, step)) + [len(ops)]:
          ncrash += 1
          st = crash_probe(name, run, expect, sfails, rec, old, fk, fn, k)
          if st == 'partial':
            crash_bad.append(('%s: a process kill leaves a truncated record at the destination'
                              % name.split('/')[0].split(' ')[0],
                              dict(meta[-1], crash_after_op=k, op=ops[k - 1][0] if k <= len(ops) else None)))
  res2, accepted = tracecheck.validate('AtomicPublish_trace', 'AtomicPublish_trace.cfg', traces, workers=2)
  if res2.error:
    raise tlc.TLCError('trace validation failed: %s\n%s' % (res2.error, res2.out[-2000:]))
  chk.add_tlc('trace validation', res2, traces=len(traces), accepted=len(accepted))
  import re
  by_id = {m['id']: m for m in meta}
  for tid_, l_, d_ in re.findall(r'<<\s*"BAD",\s*(\d+),\s*(\d+),\s*"(\w+)"\s*>>', res2.out):
    m = by_id[int(tid_)]
    chk.violation('%s: the destination holds a %s record after file-system operation %s of the recorded sequence'
                  % (m['target'].split('/')[0].split(' ')[0], d_, 'N'), dict(m, bad_after_op=int(l_)))
  for tid_, d_, f_ in re.findall(r'<<\s*"BADEND",\s*(\d+),\s*"(\w+)",\s*(\w+)\s*>>', res2.out):
    m = by_id[int(tid_)]
    chk.violation('%s: at the end the destination is %s (%s)' % (
        m['target'].split('/')[0].split(' ')[0], d_, 'a fault occurred' if f_ == 'TRUE' else 'no fault'), m)
  rejected = [t['id'] for t in traces if t['id'] not in accepted]
  for r in rejected[:5]:
    chk.violation('a recorded operation sequence is not understood by AtomicPublish_trace.tla', by_id[r])
  for sig, det in crash_bad:
    chk.violation(sig, det)
  nre, rebad = reuse_cases(rec)
  for sig, det in rebad:
    chk.violation(sig, det)
  chk.traces += nre
  chk.traces += len(traces) + ncrash
  chk.nontrivial += len(traces) + ncrash
  chk.sample(dict(trace=traces[1], meta=meta[1]))
  chk.log('%d operation sequences validated by TLC, %d real crash points probed' % (len(traces), ncrash))
  chk.cov['rule'] = ('targets {OutputToFile chunked / pickle, OutputToJSON, atomic_write +-filesync} x faults {none, serializer after '
                     'k chunks, k-th write, close} x {no previous file, previous file}; each operation sequence validated by TLC; '
                     'every (quick: sampled when long) prefix probed by killing a forked child')
  chk.assumptions += ['the staging directory is on the destination\'s file system (TMPDIR points into the scratch directory)',
                      'a process kill is os._exit right after a file-system operation returns; a power loss (unsynced data) is out of scope']
  return chk.finish(explanation='AtomicPublish.tla checked by TLC; recorded file-system operation sequences of the real callbacks '
                    'validated by TLC at every prefix; destination inspected after really killing a child at every prefix',
                    exhaustive=True)


def replay(path):
  print('re-run ./check C17 --tier quick')
  return 2
