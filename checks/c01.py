"""C01 - no false PASS.  Spec: Executor.tla (NoFalsePass, Converse, Ladder).

TLC checks the invariants on every program of the families and emits every
complete scenario; each is replayed on the real executor; the real outcome,
return value and "did a framework thread die" are compared with the model."""
import json

from checks import execlib
from vf import common

OWNED = {'outcome': 'outcome', 'false_pass': 'false PASS', 'executor_crash': 'executor thread failed',
         'no_return': 'execute() did not return'}


def fam_allskip():
  """every phase record SKIP - some of them written by an invocation that asked for a REPEAT - is an
  ERROR run ("the phase records (if any exist) are not all SKIP")"""
  from vf.progs import beh, opts, phase, program, subtest
  out = []
  for limit in (2, 3):
    p = lambda n: phase(n, beh('RKC'), o=opts(limit=limit))
    out.append(program([p('p')]))
    out.append(program([p('p'), phase('q', beh('KC'))]))
    out.append(program([subtest('s1', [p('p')]), phase('q', beh('K'))]))
  return out


def fam_repeat_options():
  """REPEAT / measurement outcomes under the repeat options: "REPEAT beyond repeat_limit counts as
  STOP" must hold whichever option drives the loop"""
  from vf.progs import beh, opts, phase, program
  out = []
  for romf in (False, True):
    for force in (False, True):
      for limit in (2, 3):
        p = phase('p', beh('RCF', ('p', 'f')), o=opts(limit=limit, force=force, romf=romf), mk='scalar')
        out.append(program([p, phase('q', beh('C'))]))
  return out


def families(tier):
  if tier == 'quick':
    return [('ladder', execlib.fam_ladder(tier)),
            ('structure3', execlib.fam_structure(3, 'PQUG', 'CFXES')),
            # a STOP / FAIL_SUBTEST checkpoint or a branch that does not fire turns into a false PASS
            ('branches2', execlib.fam_branches(2, range(8))),
            ('checkpoint-context', execlib.fam_checkpoint_context()),
            ('all-skip', fam_allskip()),
            ('repeat-options', fam_repeat_options()),
            ('monitored', execlib.fam_monitored())]
  return [('ladder', execlib.fam_ladder(tier)),
          ('structure4', execlib.fam_structure(4, 'PQUG', 'CFXES')),
          ('branches3', execlib.fam_branches(3, range(8))),
          ('checkpoint-context', execlib.fam_checkpoint_context()),
          ('all-skip', fam_allskip()),
          ('repeat-options', fam_repeat_options()),
          ('monitored', execlib.fam_monitored()),
          ('options', execlib.fam_options(tier)),
          ('table', execlib.fam_table(tier))]


def abort_sweep(chk):
  """"an abort gives ABORTED": one abort (other thread / simulated SIGINT) at every scheduling point of
  whole runs that would otherwise pass - the schedule sweep of the C04 check (AbortHandshake.tla), judged
  here on the outcome only: an abort call that returned before finalization began never ends PASS"""
  import multiprocessing as mp
  import sys
  from checks import c04
  sys.argv = sys.argv[:1]
  from vf import build, explore  # noqa: F401
  quick = chk.tier == 'quick'
  jobs = []
  for prog_name, source in (('plain', 'thread'), ('group', 'thread'), ('plain', 'sigint'), ('start', 'thread')):
    roots = explore.split_roots(c04.make_run(prog_name, source, 1), 1, 6)
    per = max(50, (3000 if quick else 30000) // max(1, len(roots)))
    for r in roots:
      jobs.append((prog_name, source, 1, 1, r, per))
  with mp.Pool(14, maxtasksperchild=8) as pool:
    outs = pool.map(c04.explore_job, jobs, chunksize=1)
  n = 0
  for o in outs:
    n += o['n']
    for sig, det in o['bad']:
      if 'abort returned before finalization but the outcome is' in sig:
        chk.violation('outcome: %s (an abort gives ABORTED)' % sig, det)
  chk.traces += n
  chk.nontrivial += n
  chk.tlc_runs.append(dict(name='abort sweep (single abort at every scheduling point), outcome clause', schedules=n))
  chk.log('%d schedules with a single abort judged on the outcome' % n)


def main(chk):
  execlib.run_families(chk, families(chk.tier), OWNED)
  abort_sweep(chk)
  chk.cov['rule'] = ('every complete scenario (program x per-invocation behaviours) TLC enumerates from '
                     'Executor.tla for the listed families; non-trivial = at least two body invocations '
                     'or one phase record; distinct because each scenario is a distinct TLC state path')
  chk.assumptions += ['T/A behaviours (timeout, abort) run under the cooperative scheduler with virtual time',
                      'allow_unset_measurements is set through CONF.load around each run']
  return chk.finish(explanation='Executor.tla invariants NoFalsePass/Converse checked by TLC; every emitted '
                    'scenario replayed on the real Test/TestExecutor and outcome/return/crash compared',
                    exhaustive=True)


def replay(path):
  return execlib.replay_file(path, OWNED, 'C01', families)
