"""C07 - built-in validators accept exactly the declared limits.  Spec:
specs/Validators.tla (order-abstract decision tables transcribed from the
statement).  TLC checks the table-level invariants and emits every row; each
row is concretised several ways (ints, floats with float neighbours, numeric
strings with type=, ints scaled by 10**30, huge ints, +-inf, +-0.0) and the
real validator's constructor, __call__, is_marginal, str, ==, deepcopy and
with_args are compared with the row."""
import copy
import json
import math
import multiprocessing as mp
import sys

from vf import common, tlaval, tlc

INF = float('inf')


def _mid(a, b):
  return (a + b) / 2 if isinstance(a, float) or isinstance(b, float) else (a + b) // 2


def _plus_half(v):
  return v + 0.5


class Conc:
  """maps positions 0..10 to concrete numbers; limits are the odd positions"""

  def __init__(self, name, odd, below, above, even_mode='mid', as_type=None, wrap=None):
    self.name = name
    self.odd = odd          # values for positions 1,3,5,7,9
    self.below, self.above = below, above
    self.even_mode = even_mode
    self.as_type = as_type
    self.wrap = wrap

  def limit(self, p):
    if p == 0:
      return None
    v = self.odd[(p - 1) // 2]
    return self.wrap(v) if self.wrap else v

  def probe(self, p):
    if p % 2 == 1:
      return self.odd[(p - 1) // 2]
    if p == 0:
      return self.below
    if p == 10:
      return self.above
    lo, hi = self.odd[p // 2 - 1], self.odd[p // 2]
    if self.even_mode == 'mid':
      return _mid(lo, hi)
    if self.even_mode == 'up':
      return math.nextafter(float(lo), INF)
    return math.nextafter(float(hi), -INF)


CONCS = [
    Conc('ints', [10, 20, 30, 40, 50], 5, 55),
    Conc('floats-mid', [0.5, 1.0, 1.5, 2.0, 2.5], 0.25, 2.75),
    Conc('floats-just-above', [0.1, 0.2, 0.3, 0.7, 1e100], -INF, INF, 'up'),
    Conc('floats-just-below', [-2.5, -1.0, -0.0, 0.3, 7.0], math.nextafter(-2.5, -INF),
         math.nextafter(7.0, INF), 'down'),
    Conc('zero-signs', [-1.0, 0.0, 1.0, 2.0, 3.0], -1.5, 3.5),
    Conc('big-ints', [10 ** 30, 2 * 10 ** 30, 3 * 10 ** 30, 4 * 10 ** 30, 5 * 10 ** 30],
         10 ** 29, 10 ** 31),
    Conc('huge-ints', [10 ** 400, 2 * 10 ** 400, 3 * 10 ** 400, 4 * 10 ** 400, 5 * 10 ** 400],
         -10 ** 401, 10 ** 401),
    Conc('str-limits-type-float', [10, 20, 30, 40, 50], 5, 55, as_type=float, wrap=str),
    Conc('str-limits-type-int', [10, 20, 30, 40, 50], 0, 60, as_type=int, wrap=str),
    Conc('mixed-int-float', [1, 2.0, 3, 4.5, 5], 0.5, 5.5),
    # numeric limits that the declared converter changes (int() truncates x.5 to x): "limits are converted with
    # the declared type before comparing" also when they are numbers already
    Conc('float-limits-type-int', [10, 20, 30, 40, 50], 5, 55, as_type=int, wrap=_plus_half),
]


def _try(fn):
  try:
    return ('ok', fn())
  except Exception as e:  # pylint: disable=broad-except
    return ('exc', type(e).__name__)


def check_range(rows, conc_ids, all_variant):
  from openhtf.util import validators as V
  bad = []
  n = 0
  for r in rows:
    mn, mx, mmn, mmx = r['lim']
    for ci in conc_ids:
      c = CONCS[ci]
      if all_variant and (c.as_type or c.name == 'huge-ints'):
        continue
      n += 1
      args = [c.limit(mn), c.limit(mx)]
      kw = {}
      if mmn:
        kw['marginal_minimum'] = c.limit(mmn)
      if mmx:
        kw['marginal_maximum'] = c.limit(mmx)
      if c.as_type:
        kw['type'] = c.as_type
      cls = V.AllInRangeValidator if all_variant else V.InRange
      what = 'all_in_range' if all_variant else 'in_range'
      st, v = _try(lambda: cls(*args, **kw))
      if c.as_type and not r['ok']:
        continue  # consistency of string limits cannot be judged before conversion
      if (st == 'ok') != r['ok']:
        bad.append(('%s constructor %s limits the table %s' % (
            what, 'accepts' if st == 'ok' else 'rejects', 'rejects' if not r['ok'] else 'accepts'),
                    dict(lim=r['lim'], conc=c.name)))
        continue
      if st != 'ok':
        if v != 'ValueError':
          bad.append(('%s constructor raises %s instead of ValueError' % (what, v), dict(lim=r['lim'], conc=c.name)))
        continue
      variants = [('plain', v), ('deepcopy', copy.deepcopy(v))]
      if not all_variant:
        variants.append(('with_args', v.with_args(unused=1)))
        same = cls(*args, **kw)
        st_eq, eq = _try(lambda: (v == same) and not (v != same))
        if st_eq != 'ok' or not eq:
          bad.append(('equal in_range validators do not compare equal%s' % (
              ' (comparison raises %s)' % eq if st_eq != 'ok' else ''), dict(lim=r['lim'], conc=c.name)))
      for vn, vv in variants:
        if str(vv) != str(v):
          bad.append(('%s of %s prints other limits' % (vn, what), dict(lim=r['lim'], conc=c.name)))
        probes = r['probes'] if all_variant else list(range(11))
        for p in probes:
          if all_variant:
            x = [c.probe(p[0]), c.probe(p[1])]
            exp_pass = p in r['pass']
            exp_marg = p in r['marg']
          else:
            x = c.probe(p)
            exp_pass = p in r['pass']
            exp_marg = p in r['marg']
          st2, got = _try(lambda: vv(x))
          if st2 != 'ok' or bool(got) != exp_pass:
            bad.append(('%s%s: %s value %s' % (what, '' if vn == 'plain' else ' (' + vn + ')',
                                               'rejects an inside' if exp_pass else 'accepts an outside',
                                               'raises' if st2 != 'ok' else ''),
                        dict(lim=r['lim'], conc=c.name, probe=p, value=repr(x), got=got)))
            continue
          if exp_pass:
            st3, gm = _try(lambda: vv.is_marginal(x))
            if st3 != 'ok' or bool(gm) != exp_marg:
              bad.append(('%s%s: is_marginal wrong for a passing value%s' % (
                  what, '' if vn == 'plain' else ' (' + vn + ')', ' (raises)' if st3 != 'ok' else ''),
                          dict(lim=r['lim'], conc=c.name, probe=p, value=repr(x), got=gm, expected=exp_marg)))
        if all_variant:
          # "None and NaN never pass a numeric range": at any position of the list
          inside = [pp for pp in r['probes'] if pp in r['pass']][:2]
          for pp in inside:
            a, b = c.probe(pp[0]), c.probe(pp[1])
            for special in (float('nan'), None):
              for x in ([a, special], [special, b], [a, b, special], [a, special, b]):
                st2, got = _try(lambda: vv(x))
                if st2 == 'ok' and got:
                  bad.append(('all_in_range accepts a list containing %s' % ('NaN' if special is not None else 'None'),
                              dict(lim=r['lim'], conc=c.name, value=repr(x))))
        if not all_variant:
          for special in (None, float('nan')):
            st2, got = _try(lambda: vv(special))
            if st2 != 'ok' or got:
              bad.append(('in_range accepts or raises on %r' % (special,), dict(lim=r['lim'], conc=c.name)))
            st3, gm = _try(lambda: vv.is_marginal(special))
            if st3 != 'ok' or gm:
              bad.append(('in_range.is_marginal true or raises on %r' % (special,), dict(lim=r['lim'], conc=c.name)))
  return n, bad


def check_pct(rows):
  from openhtf.util import validators as V
  bad = []
  n = 0
  for r in rows:
    for scale in (1, 1.0, 0.01):
      n += 1
      e = r['e'] * scale
      args = [e, r['p']] + ([] if r['m'] == -1 else [r['m']])
      st, v = _try(lambda: V.WithinPercent(*args))
      det = dict(e=r['e'], p=r['p'], m=r['m'], scale=scale)
      if (st == 'ok') != r['ok']:
        bad.append(('within_percent constructor %s arguments the table %s' % (
            'accepts' if st == 'ok' else 'rejects', 'rejects' if not r['ok'] else 'accepts'), det))
        continue
      if st != 'ok':
        continue
      if scale == 0.01:
        continue   # inexact in binary floating point: constructor only
      for vn, vv in (('plain', v), ('deepcopy', copy.deepcopy(v))):
        if not (vv == v) or str(vv) != str(v):
          bad.append(('%s of within_percent differs' % vn, det))
        for p in r['probes']:
          x = p * scale
          st2, got = _try(lambda: vv(x))
          if st2 != 'ok' or bool(got) != (p in r['pass']):
            bad.append(('within_percent %s value' % ('rejects an inside' if p in r['pass'] else 'accepts an outside'),
                        dict(det, probe=p, got=got)))
          st3, gm = _try(lambda: vv.is_marginal(x))
          if st3 != 'ok':
            bad.append(('within_percent.is_marginal raises %s' % gm, dict(det, probe=p)))
          elif gm and p not in r['may']:
            bad.append(('within_percent deems a value marginal that is outside the marginal band / tolerance',
                        dict(det, probe=p)))
          elif not gm and p in r['must']:
            bad.append(('within_percent does not deem a value inside the marginal band marginal', dict(det, probe=p)))
  return n, bad


def check_pct_inexact():
  """bounds that are not exactly representable: the declared limits are the
  validator's own minimum / maximum (what it prints); both are inclusive, their
  outward float neighbours are outside; huge ints are outside, not an error"""
  from openhtf.util import validators as V
  bad = []
  n = 0
  for e, p in ((3.3, 10), (1.1, 2), (0.1, 5), (-3.3, 10), (2.2, 7), (1e-3, 3), (123.456, 0.1), (100, 200), (7, 33)):
    v = V.WithinPercent(e, p)
    for vn, vv in (('plain', v), ('deepcopy', copy.deepcopy(v))):
      lo, hi = vv.minimum, vv.maximum
      probes = [(lo, True), (hi, True), (math.nextafter(lo, -INF), False), (math.nextafter(hi, INF), False),
                (math.nextafter(lo, INF), True), (math.nextafter(hi, -INF), True), (e, True),
                (10 ** 400, False), (-10 ** 400, False), (INF, False), (-INF, False)]
      for x, want in probes:
        n += 1
        st, got = _try(lambda: vv(x))
        if st != 'ok' or bool(got) != want:
          bad.append(('within_percent %s value at / next to its own declared bound%s' % (
              'rejects an inside' if want else 'accepts an outside', ' (raises)' if st != 'ok' else ''),
                      dict(expected=e, percent=p, probe=repr(x), variant=vn, got=got)))
  return n, bad


def check_str(tab, pivots, eqrows):
  import re
  from openhtf.util import validators as V
  bad = []
  n = 0
  for S in ('abc', 'a.b', 'x+', '(1)', 'a b', '^$', 'Z\\d'):
    concrete = {'S': S, 'S+nl': S + '\n', 'S+nl+nl': S + '\n\n', 'S+x': S + 'x', 'x+S': 'x' + S,
                'prefix': S[:-1], 'empty': '', 'upper': S.upper() if S.upper() != S else 'q' + S,
                'nl+S': '\n' + S}
    v = V.equals(S)
    vr = V.matches_regex(re.escape(S))
    va = V.all_equals(S)
    for vn, vv, vvr in (('plain', v, vr), ('deepcopy', copy.deepcopy(v), copy.deepcopy(vr))):
      for p in tab['probes']:
        n += 1
        x = concrete[p]
        got = bool(vv(x))
        if got and p not in tab['may']:
          bad.append(('equals(str) accepts a string that differs from the literal', dict(S=S, probe=p)))
        if not got and p in tab['must']:
          bad.append(('equals(str) rejects the literal', dict(S=S, probe=p)))
        if bool(vvr(x)) != (p in tab['regex']):
          bad.append(('matches_regex is not anchored at the start of str(value) only', dict(S=S, probe=p)))
    # all_equals(str): every element equals the literal
    for xs, exp in (([S, S], True), ([S], True), ([S, S + 'x'], False), (['x' + S, S], False)):
      n += 1
      st, got = _try(lambda: va(xs))
      if st != 'ok' or bool(got) != exp:
        bad.append(('all_equals(str) %s' % ('rejects values that all equal the literal' if exp
                                             else 'accepts a value that differs'), dict(S=S, values=xs)))
  # regex on non-strings uses str(value)
  if not V.matches_regex('1')(12) or V.matches_regex('2')(12):
    bad.append(('matches_regex does not match from the start of str(value)', {}))
  # equals / all_equals dispatch
  samples = {'int': (3, 4), 'float': (2.5, 2.75), 'str': ('lit', 'lit2'), 'tuple': ((1, 2), (1, 3))}
  for r in eqrows:
    same, other = samples[r['k']]
    n += 1
    ve = V.equals(same)
    if bool(ve(same)) != r['same'] or bool(ve(other)) != r['other']:
      bad.append(('equals(%s) decides wrongly' % r['k'], {}))
    st, got = _try(lambda: ve(None))
    if r['k'] != 'str' and (st != 'ok' or got):
      bad.append(('equals(%s) accepts or raises on None' % r['k'], {}))
    va = V.all_equals(same)
    st, got = _try(lambda: (bool(va([same, same])), bool(va([same, other]))))
    if st != 'ok' or got != (True, False):
      bad.append(('all_equals(%s) decides wrongly' % r['k'], dict(got=got)))
  if V.equals(3)(3.0) is not True or V.equals(3)(float('nan')) or V.equals(2.5, type=float)(2.5) is not True:
    bad.append(('equals(number) decides wrongly on float/NaN', {}))
  # with_args substitution with type conversion
  tv = V.InRange('{lo}', '{hi}', type=int).with_args(lo=1, hi=3)
  ref = V.InRange(1, 3)
  for x in (0, 1, 2, 3, 4):
    if bool(tv(x)) != bool(ref(x)):
      bad.append(('with_args-substituted in_range decides differently', dict(x=x)))
  if str(tv) != str(ref):
    bad.append(('with_args-substituted in_range prints other limits', dict(a=str(tv), b=str(ref))))
  # pivots
  sub = V.InRange(1, 3)
  for r in pivots:
    n += 1
    rows = [(i, 2 if ok else 9) for i, ok in enumerate(r['q'])]
    if bool(V.dimension_pivot_validate(sub)(rows)) != r['all']:
      bad.append(('dimension_pivot_validate decides wrongly', dict(q=r['q'])))
    if bool(V.consistent_end_dimension_pivot_validate(sub)(rows)) != r['cend']:
      bad.append(('consistent_end_dimension_pivot_validate decides wrongly', dict(q=r['q'])))
  return n, bad


def check_eq_types():
  """"equality ... yield validators that decide identically and print the same limits" when the
  same raw limits are declared with different `type=` converters: two validators that compare
  equal must agree on every probe; limits that convert to the same numbers compare equal"""
  from openhtf.util import validators as V
  bad = []
  n = 0
  limits = [(1.5, 5.5), ('1', '5'), (1, 5), (0.5, 2.5), ('1.5', '5.5'), (2, None), (None, 4.5)]
  types = [None, int, float]
  probes = [0, 1, 1.2, 1.5, 2, 2.5, 4.5, 5, 5.3, 5.5, 6]
  vals = []
  for lim in limits:
    for ty in types:
      st, v = _try(lambda: V.InRange(lim[0], lim[1], **({'type': ty} if ty else {})))
      if st == 'ok':
        vals.append((lim, ty, v))
  for i, (la, ta, a) in enumerate(vals):
    for lb, tb, b in vals[i:]:
      n += 1
      st, eq = _try(lambda: (a == b))
      if st != 'ok':
        continue
      decide = []
      for x in probes:
        ra, rb = _try(lambda: bool(a(x))), _try(lambda: bool(b(x)))
        decide.append(ra == rb)
      if eq and not all(decide):
        bad.append(('two in_range validators compare equal but decide differently',
                    dict(a=[repr(la), str(ta)], b=[repr(lb), str(tb)])))
      same_eff = _try(lambda: (a.minimum, a.maximum)) == _try(lambda: (b.minimum, b.maximum))
      if same_eff and _try(lambda: (a.minimum, a.maximum))[0] == 'ok' and not eq and \
          (a.marginal_minimum, a.marginal_maximum) == (b.marginal_minimum, b.marginal_maximum):
        bad.append(('in_range validators whose converted limits are the same do not compare equal',
                    dict(a=[repr(la), str(ta)], b=[repr(lb), str(tb)])))
  return n, bad


def _work(args):
  sys.argv = sys.argv[:1]
  kind, rows, extra = args
  if kind == 'range':
    return check_range(rows, extra, False)
  if kind == 'all':
    return check_range(rows, extra, True)
  if kind == 'pct':
    return check_pct(rows)
  if kind == 'pct-inexact':
    return check_pct_inexact()
  if kind == 'eq-types':
    return check_eq_types()
  return check_str(*rows)


def main(chk):
  res = tlc.must_pass(tlc.run('Validators', 'Validators_mc.cfg'), 'Validators tables')
  chk.add_tlc('tables', res)
  rng = res.prints('RANGE')[0][0]
  allr = res.prints('ALL')[0][0]
  pct = res.prints('PCT')[0][0]
  strt = res.prints('STR')[0][0]
  piv = res.prints('PIVOT')[0][0]
  eqr = res.prints('EQ')[0][0]
  for r in allr:
    r['probes'] = [p for p in [[a, b] for a in (0, 1, 2, 3, 5, 8, 9, 10) for b in (1, 4, 5, 9, 10)]]
  chk.states = max(chk.states, len(rng) + len(allr) + len(pct) + len(piv))
  chk.transitions = max(chk.transitions, chk.states)
  quick = chk.tier == 'quick'
  conc_all = list(range(len(CONCS)))
  jobs = []
  step = 54
  for i in range(0, len(rng), step):
    ids = conc_all if not quick else [(i // step + k) % len(CONCS) for k in range(4)]
    jobs.append(('range', rng[i:i + step], ids))
    jobs.append(('all', allr[i:i + step], ids if not quick else ids[:2]))
  for i in range(0, len(pct), 30):
    jobs.append(('pct', pct[i:i + 30], None))
  jobs.append(('str', (strt, piv, eqr), None))
  jobs.append(('pct-inexact', None, None))
  jobs.append(('eq-types', None, None))
  with mp.Pool(14) as pool:
    outs = pool.map(_work, jobs)
  for (kind, rows, _), (n, bad) in zip(jobs, outs):
    chk.traces += n
    chk.nontrivial += n
    seen = {}
    for sig, det in bad:
      seen.setdefault(sig, det)
    for sig, det in seen.items():
      chk.violation(sig, det)
  chk.sample(dict(table='in_range', row=rng[200]))
  chk.sample(dict(table='within_percent', row=pct[40]))
  chk.cov['rule'] = ('every row of the order-abstract tables (6^4 limit tuples x 11 probe positions; all_in_range '
                     'pairs; 150 percent rows; string/pivot/equality tables) x concretisations; each (row, '
                     'concretisation) is one case, all non-trivial')
  chk.cov['concretisations'] = [c.name for c in CONCS]
  chk.assumptions += ['only comparisons that are exact in binary floating point are generated',
                      'is_marginal is compared only for passing values (the statement is silent otherwise)',
                      'within_percent: marginal is pinned down strictly inside the tolerance; at the outer bound only marginal => pass']
  return chk.finish(explanation='decision tables of Validators.tla (checked by TLC for MarginalImpliesPass, '
                    'BoundsInclusive, MarginalBands, PctSymmetric) replayed row by row on the real validators',
                    exhaustive=True)


def replay(path):
  print('C07 scenarios are single table rows; re-run ./check C07 --tier quick')
  return 2
