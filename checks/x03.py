"""X03 (extension, not one of the listed properties) - the composition
operations of openhtf.core.phase_group.PhaseGroup.  Spec: specs/GroupAlgebra.tla.

TLC checks CombineAssociative / CombineOrder / WrapIsCombine / ContextIsNew /
OperandsUntouched and emits every history of MaxOps operations; each is replayed
on the real classes: the (setup, main, teardown) name lists of every result are
compared after every operation, every earlier group is re-read (an operation
must not modify its operands), and every distinct group is executed once in a
real Test to compare the order of the bodies with Flat(g)."""
import json
import multiprocessing as mp
import sys

from vf import common, tlaval, tlc  # noqa: F401


def _names(seq):
  return [p.name for p in seq.all_phases()] if seq else []


def triple(g):
  return [_names(g.setup), _names(g.main), _names(g.teardown)]


def replay_hist(hist, ran_cache):
  import openhtf as htf
  bad = []
  order = []

  def mk(name):
    def body(test):
      order.append(name)
    return htf.PhaseOptions(name=name)(body)
  groups = []
  want = []
  for op, args, res in hist:
    exp = [list(res['s']), list(res['m']), list(res['t'])]
    if op == 'New':
      s, m, t = args
      g = htf.PhaseGroup(setup=[mk(n) for n in s] or None, main=[mk(n) for n in m] or None,
                         teardown=[mk(n) for n in t] or None)
    elif op == 'Context':
      s, m, t = args
      g = htf.PhaseGroup.with_context([mk(n) for n in s], [mk(n) for n in t])(*[mk(n) for n in m])
    elif op == 'Combine':
      g = groups[args[0] - 1].combine(groups[args[1] - 1])
    else:
      g = groups[args[0] - 1].wrap([mk(n) for n in args[1]])
    groups.append(g)
    want.append(exp)
    got = triple(g)
    if got != exp:
      bad.append('%s returns a group with parts %s, model says %s' % (op, got, exp))
    for k, (old, w) in enumerate(zip(groups[:-1], want[:-1])):
      if triple(old) != w:
        bad.append('%s modified a group that was built before (operand or bystander)' % op)
  # execution order of every distinct group (all bodies pass): setup, main, teardown
  for g, w in zip(groups, want):
    key = json.dumps(w)
    if key in ran_cache or not (w[0] or w[1] or w[2]):
      continue
    ran_cache.add(key)
    del order[:]
    t = htf.Test(g)
    t.execute()
    if order != w[0] + w[1] + w[2]:
      bad.append('executing the group runs %s, model says %s' % (order, w[0] + w[1] + w[2]))
  return bad


def work(text):
  sys.argv = sys.argv[:1]
  import openhtf  # noqa: F401
  from openhtf.util import console_output
  console_output.CLI_QUIET = True
  hists = tlaval.parse_many(text, 'HIST')
  cache = set()
  out = dict(n=0, bad=[], executed=0)
  for (h,) in hists:
    out['n'] += 1
    try:
      bad = replay_hist(h, cache)
    except Exception as e:  # pylint: disable=broad-except
      bad = ['replaying the history raised %s: %s' % (type(e).__name__, e)]
    if bad and len(out['bad']) < 5:
      out['bad'].append((bad[0], h))
  out['executed'] = len(cache)
  return out


def main(chk):
  cfg = open('specs/GroupAlgebra_mc.cfg').read()
  if chk.tier != 'quick':
    cfg = cfg.replace('Pool <- MCPool', 'Pool <- MCPoolBig')
  res = tlc.must_pass(tlc.run('GroupAlgebra', cfg, workers=8, heap='6g', timeout=3000), 'GroupAlgebra design + emit')
  chk.add_tlc('GroupAlgebra (CombineAssociative, CombineOrder, WrapIsCombine, ContextIsNew, OperandsUntouched)', res)
  chunks = tlaval.split_prints(res.out, 'HIST', 56)
  with mp.Pool(14) as pool:
    outs = pool.map(work, chunks)
  import re
  ex = 0
  for o in outs:
    chk.traces += o['n']
    chk.nontrivial += o['n']
    ex += o['executed']
    for sig, h in o['bad']:
      chk.violation(re.sub(r' (returns a group with parts|runs) .*', r' \1 something else than the model', sig),
                    dict(history=h, detail=sig))
  if chk.traces < 1000:
    raise tlc.TLCError('vacuity: only %d histories emitted' % chk.traces)
  # binding self-test: a corrupted expectation must be noticed
  h0 = [['New', [['a'], ['b'], []], dict(s=['a'], m=['b'], t=['b'])]]
  sys.argv = sys.argv[:1]
  with mp.Pool(1) as pool:
    if not pool.apply(_selftest, (h0,)):
      raise tlc.TLCError('selftest: corrupted expectation not detected')
  chk.cov['binding_selftest'] = 'a history with a corrupted expected result is rejected'
  chk.cov['rule'] = ('every history of 3 operations {New, Context, Combine, Wrap} over earlier results and a pool of name '
                     'sequences; every distinct group executed once per worker')
  chk.log('%d histories replayed, %d group executions' % (chk.traces, ex))
  return chk.finish(explanation='GroupAlgebra.tla checked by TLC; every emitted history replayed on the real PhaseGroup '
                    'operations, results and operands compared after every step, groups executed', exhaustive=True)


def _selftest(h0):
  sys.argv = sys.argv[:1]
  import openhtf  # noqa: F401
  from openhtf.util import console_output
  console_output.CLI_QUIET = True
  return bool(replay_hist(h0, set()))


def replay(path):
  with open(path) as fh:
    sc = json.load(fh)['scenario']
  sys.argv = sys.argv[:1]
  import openhtf  # noqa: F401
  bad = replay_hist(sc['history'], set())
  if bad:
    print('VIOLATION property=X03 replay=%s\n  what: %s' % (path, bad[0]))
    return 1
  print('replay: the operations behave as the model')
  return 0
