"""C08 - plug lifecycle.  Spec: Executor.tla (PlugCtor / PlugsDone /
PlugTearDown, invariants AtMostOneInstance, TornDownOnce, PlugTdAfterNodes)."""
from checks import execlib
from vf import common

OWNED = {'plugs': 'plugs', 'no_return': 'execute() did not return',
         'executor_crash': 'executor thread failed', 'outcome': 'outcome with plug faults'}


def fam_hang(tier):
  from vf.progs import beh, phase, program
  out = []
  for td in ({'x': 'hang'}, {'x': 'hang', 'y': 'raise'}, {'y': 'hang'}, {'x': 'hardhang'}, {'y': 'hardhang', 'x': 'raise'}):
    for b in ('C', 'E', 'T', 'A'):
      out.append(program([phase('p1', beh(b), plugs=('x',)), phase('p2', beh('C'), plugs=('x', 'y'))],
                         plugspec=dict(tdmode=td)))
  return out


def families(tier):
  return [('plugs', execlib.fam_plugs(tier)), ('plug-hang', fam_hang(tier))]


def teardown_deadline(chk):
  """two plugs whose tearDown returns at the very moment plug_teardown_timeout_s expires: whether the
  manager sees them as finished or abandons them, "neither changes the test outcome nor prevents the other
  plugs' tearDown".  Whole runs under the scheduler, every statement of threads.py a scheduling point, DFS
  with one preemption (the c04 run harness)."""
  import multiprocessing as mp
  import sys
  from checks import c04
  sys.argv = sys.argv[:1]
  from vf import build, explore  # noqa: F401
  quick = chk.tier == 'quick'
  roots = explore.split_roots(c04.make_run('plugedge', 'none', 0), 1, 6)
  per = max(50, (4000 if quick else 40000) // max(1, len(roots)))
  with mp.Pool(12, maxtasksperchild=8) as pool:
    outs = pool.map(c04.explore_job, [('plugedge', 'none', 0, 1, r, per) for r in roots], chunksize=1)
  n = 0
  for o in outs:
    n += o['n']
    for sig, det in o['bad']:
      chk.violation('tearDown returning as plug_teardown_timeout_s expires: ' + sig, det)
  chk.traces += n
  chk.nontrivial += n
  chk.tlc_runs.append(dict(name='dfs plug tearDown finishing at its timeout', schedules=n))
  chk.log('%d schedules of plug tearDown finishing at its timeout' % n)


def main(chk):
  execlib.run_families(chk, families(chk.tier), OWNED, extra=dict(plug_timeout=True))
  teardown_deadline(chk)
  # "tearDown ... before the output callbacks, whatever the outcome (... abort)": real threads, real SIGINT
  from checks import c09
  c09.real_sigint(chk, owned='plugs')
  chk.cov['rule'] = ('assignments of <=3 plug classes to phases/test_start x constructor and tearDown fault '
                     'vectors x phase behaviours; non-trivial = at least two invocations or one record')
  chk.assumptions += ['hanging tearDown runs under virtual time with plug_teardown_timeout_s=3']
  return chk.finish(explanation='plug lifecycle actions of Executor.tla checked by TLC; scenarios replayed with '
                    'instrumented plug classes; lifecycle rules evaluated on the real event log and compared '
                    'with the model', exhaustive=True)


def replay(path):
  import json
  with open(path) as fh:
    sc = json.load(fh)['scenario']
  if sc.get('scenario') == 'real SIGINT':
    from checks import c09
    chk = common.Check('C08', 'quick', 0)
    c09.real_sigint(chk, owned='plugs')
    for sig, det in chk.violations:
      print('VIOLATION property=C08 replay=%s\n  what: %s' % (path, sig))
      return 1
    print('replay: plug tearDown completes before the output callbacks under a real SIGINT')
    return 0
  return execlib.replay_file(path, OWNED, 'C08', families)
