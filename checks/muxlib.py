"""Replay of AdbMux.tla histories on the real AdbConnection over a reactive
fake device (single host thread, cooperative scheduler for virtual time)."""
import struct
import sys

from vf import tlaval, tlc

CFG = '''CONSTANTS
  Limit = %(limit)d
  Probe = 64
  MaxData = 2
  Sym = {"a", "b"}
  MaxStreams = %(streams)d
  MaxOps = %(ops)d
  MaxWire = %(wire)d
  MaxDev = %(dev)d
  DataSeqs <- MCDataSeqs
  DevSeqs <- MCDevSeqs
  ReadLens = {%(readlens)s}
  IllegalCmds = {%(illegal)s}
SPECIFICATION Spec
%(view)s
INVARIANT PerStreamFifoExactlyOnce
INVARIANT AcksMatchWrtes
INVARIANT ChunksAtMostMaxData
INVARIANT IdsDistinctNonZeroBelowLimit
INVARIANT AtMostOneClsePerStream
INVARIANT ClosedReleasesId
INVARIANT UsableOnlyAfterOkay
%(emit)s
CHECK_DEADLOCK FALSE
'''


def _seqs(seqs):
  return ', '.join('<<%s>>' % ', '.join('"%s"' % c for c in d) for d in seqs)


def module(dataseqs, devseqs=(('a',), ('b',))):
  return ('---- MODULE MCMux ----\nEXTENDS AdbMux\nMCDataSeqs == {%s}\nMCDevSeqs == {%s}\n'
          'DesignView == <<wire, st, sent, last, devw, hostr, nops>>\n====\n'
          % (_seqs(dataseqs), _seqs(devseqs)))


ERR = {'TIMEOUT': ('UsbReadFailedError', 'AdbTimeoutError'), 'CLOSED': ('AdbStreamClosedError',),
       'PROTO': ('AdbProtocolError',), 'AdbStreamUnavailableError': ('AdbStreamUnavailableError',)}


class Device:
  """reactive fake: replies to OPEN / WRTE as the current host operation says"""

  def __init__(self, maxdata):
    from vf import usbfake
    self.uf = usbfake
    self.rx = list(usbfake.frame('CNXN', 0x01000000, maxdata, 'device:SER123:banner'))
    self.tx = []          # decoded host messages (cmd, a0, a1, data)
    self.pending = None
    self.open_reply = None
    self.ack = False
    self.nopen = 0
    self.lids = {}        # handle -> local id

  def write(self, data, timeout_ms=None):
    if self.pending is None:
      cmd, a0, a1, ln, ck, mg = struct.unpack('<6I', data)
      self.pending = (self.uf.adb_message.AdbMessage.WIRE_TO_CMD.get(cmd, hex(cmd)), a0, a1)
      return
    cmd, a0, a1 = self.pending
    self.pending = None
    self.tx.append((cmd, a0, a1, data))
    if cmd == 'OPEN':
      self.nopen += 1
      h = self.nopen
      self.lids[h] = a0
      if self.open_reply == 'OKAY':
        self.rx += self.uf.frame('OKAY', 100 + h, a0)
      elif self.open_reply == 'CLSE':
        self.rx += self.uf.frame('CLSE', 0, a0)
    elif cmd == 'WRTE' and self.ack:
      self.rx += self.uf.frame('OKAY', a1, a0)

  def read(self, length, timeout_ms=None):
    if not self.rx:
      raise self.uf.timeout_error()
    return self.rx.pop(0)[:length]

  def close(self):
    pass


def replay_history(hist, limit, maxdata=2):
  from vf import sched, usbfake
  box = {}

  def main():
    box['bad'] = _replay(hist, limit, maxdata)
  s = sched.Sched(max_steps=100000)
  try:
    s.run(main)
  except (sched.Deadlock, sched.StepBudget) as e:
    return [('host operation does not return (%s)' % type(e).__name__, {})]
  return box.get('bad', [('harness: main thread died', {})])


def _replay(hist, limit, maxdata):
  from vf import usbfake
  ap = usbfake.adb_protocol
  bad = []
  dev = Device(maxdata)
  old = ap.STREAM_ID_LIMIT
  ap.STREAM_ID_LIMIT = limit
  try:
    conn = ap.AdbConnection.connect(dev, timeout_ms=10000)
    if conn.maxdata != maxdata:
      return [('connect() did not take maxdata from CNXN', {})]
    dev.tx = []
    streams = {}
    for idx, (op, res, sent) in enumerate(hist):
      kind = op[0]
      if kind == 'dev':
        cmd, h, d = op[1], op[2], op[3]
        if h:
          dev.rx += usbfake.frame(cmd, 100 + h, dev.lids[h], ''.join(d))
        elif cmd == 'WRTE':
          dev.rx += usbfake.frame('WRTE', 999, limit + 5, 'a')
        else:
          dev.rx += usbfake.frame(cmd, 0, 0, '')
        continue
      before = len(dev.tx)
      got = None
      try:
        if kind == 'open':
          dev.open_reply = op[1]
          h = dev.nopen + 1
          r = conn.open_stream('dest', timeout_ms=10000)
          if r is None:
            got = 'None'
          else:
            got = 'stream'
            streams[h] = r
        elif kind == 'read':
          data = streams[op[1]].read(op[2], timeout_ms=10000)
          got = ['data', list(data)]
        elif kind == 'write':
          dev.ack = op[3]
          streams[op[1]].write(''.join(op[2]), timeout_ms=10000)
          got = 'ok'
        elif kind == 'close':
          streams[op[1]].close()
          got = 'ok'
      except Exception as e:  # pylint: disable=broad-except
        got = 'exc:' + type(e).__name__
      finally:
        dev.ack = False
        dev.open_reply = None
      det = dict(step=idx, op=op)
      # result
      if isinstance(res, str) and res in ERR:
        if not (isinstance(got, str) and got.startswith('exc:') and got[4:] in ERR[res]):
          bad.append(('%s %s, model says it raises %s' % (kind, _describe(got), '/'.join(ERR[res])), det))
      elif res != got:
        bad.append(('%s %s, model says %s' % (kind, _describe(got), _describe(res)), det))
      # messages sent by the host during this operation
      exp = [(m[0], m[1], m[2], 'dest\0' if m[0] == 'OPEN' else ''.join(m[3])) for m in sent]
      new = dev.tx[before:]
      if new != exp:
        bad.append(('during %s the host sent %s, model says %s' % (kind, _msgs(new), _msgs(exp)), det))
      # ids
      for m in new:
        if m[0] == 'OPEN' and not (1 <= m[1] < limit):
          bad.append(('open_stream used local id %d outside 1..limit-1' % m[1], det))
  finally:
    ap.STREAM_ID_LIMIT = old
  return bad


def _describe(x):
  if isinstance(x, str):
    return 'raised ' + x[4:] if x.startswith('exc:') else 'returned ' + x
  return 'returned %r' % (x,)


def _msgs(ms):
  return [(m[0], m[1], m[2], len(m[3])) for m in ms]


def generalise(sig):
  import re
  sig = re.sub(r'the host sent \[.*', 'the host sent other messages than the model', sig)
  sig = re.sub(r"returned \['data'.*", 'returned other data than the model', sig)
  sig = re.sub(r'\d+', 'N', sig)
  return sig[:150]


def work(args):
  sys.argv = sys.argv[:1]
  text, limit = args
  hists = tlaval.parse_many(text, 'HIST')
  out = dict(n=0, bad=[], nontrivial=0, sample=None)
  for (h,) in hists:
    out['n'] += 1
    if sum(1 for e in h if e[0][0] == 'dev') >= 1 and sum(1 for e in h if e[0][0] in ('read', 'write')) >= 1:
      out['nontrivial'] += 1
    bad = replay_history(h, limit)
    if bad and len(out['bad']) < 8:
      out['bad'].append((bad[0][0], dict(history=h, limit=limit, detail=bad[0][1])))
    if out['sample'] is None and len(h) >= 5:
      out['sample'] = [[e[0], e[1]] for e in h]
  return out
