"""C12 - phase timeout and thread kill.  Specs: PhaseTimeout.tla (deadline
polling in discrete time) and KillableThread.tla (PlusCal: run / kill
interleavings).

1. TLC: NoFalseTimeout / TimeoutWhenOverdue / BoundedDelay on every (T, D,
   result) row; KillBeforeStart / KillAfterBodyNoEffect / ConfinedToBody /
   Termination on all interleavings of kill() with the thread (the variant
   with a non-atomic probe-and-raise exposes the window the class docstring
   admits; kept as sensitivity evidence).
2. spec->code: every row is replayed on the real executor in virtual time (phase
   in a group with a teardown phase and a plug): phase result, test outcome,
   teardown / plug tearDown, time at which the executor proceeds.
3. code: a KillableThread subclass defined in the harness is run with a killer
   and a starter thread under preemption-bounded DFS; each run's event log is
   judged against the three kill formulas.
4. late effects of an abandoned body (it swallows the kill and later sets a
   measurement, attaches, returns a result) must not reach another phase."""
import json
import multiprocessing as mp
import sys
import threading
import time

from vf import common, tlaval, tlc

RES = {'C': ('CONTINUE', 'PASS'), 'F': ('FAIL_AND_CONTINUE', 'FAIL'), 'E': ('EXC', 'ERROR'), 'S': ('STOP', 'ERROR')}


def run_row(row):
  """one (T, D, res) row on the real executor; time unit = 0.5 s"""
  from vf import build, sched
  import openhtf as htf
  box = {}

  def main():
    log = []
    T, D = row['T'] / 2.0, row['D'] / 2.0
    inf = row['D'] == 999

    class P(htf.BasePlug if hasattr(htf, 'BasePlug') else object):
      def tearDown(self):
        log.append(('plug-teardown', time.time()))
    from openhtf.core import base_plugs

    class Plug(base_plugs.BasePlug):
      def tearDown(self):
        log.append(('plug-teardown', time.time()))

    pkw = dict(name='p', timeout_s=T)
    if row.get('rot'):
      pkw.update(repeat_on_timeout=True, repeat_limit=2)

    @htf.plug(pl=Plug)
    @htf.PhaseOptions(**pkw)
    def p(test, pl):
      t0 = time.time()
      log.append(('p.start', t0))
      if inf:
        while True:
          try:
            time.sleep(1000)
          except BaseException:  # the body never returns and ignores the kill
            pass
      time.sleep(D)
      log.append(('p.end', time.time()))
      if row['res'] == 'F':
        return htf.PhaseResult.FAIL_AND_CONTINUE
      if row['res'] == 'S':
        return htf.PhaseResult.STOP
      if row['res'] == 'E':
        raise build.BodyError('boom')
      return None

    if row['outcome'] == 'TIMEOUT' and (row['T'] + row['D']) % 2 == 0:
      # a phase diagnoser that raises while the timed-out phase is finalized: only logged, the run still reports TIMEOUT
      from openhtf.core import diagnoses_lib

      def raising(phase_record):
        raise RuntimeError('diagnoser raises on the timed-out phase')
      p = htf.diagnose(diagnoses_lib.PhaseDiagnoser(build.R, name='dg_raises', run_func=raising))(p)

    def td(test):
      log.append(('td', time.time()))

    def after(test):
      log.append(('after', time.time()))
    t = htf.Test(htf.PhaseGroup(main=[p], teardown=[htf.PhaseOptions(name='td')(td)]),
                 htf.PhaseOptions(name='after')(after))
    out = []
    t.add_output_callbacks(out.append)
    t0 = time.time()
    # linger: the phase thread's finish hook ("called once _thread_proc has finished") is slow
    from openhtf.core import phase_executor as pe
    orig_fin = pe.PhaseExecutorThread._thread_finished

    # ... for a body that raised, the time is spent in a slow log handler instead (the thread logs the
    # exception from its handler): what the executor decides must not depend on where the thread lingers
    slow_log = bool(row.get('L')) and row['res'] == 'E'

    def slow_finished(self):
      if self._phase_desc.name == 'p' and row.get('L') and not slow_log:
        time.sleep(row['L'] / 2.0)
      return orig_fin(self)

    import logging
    import threading as _th

    class SlowHandler(logging.Handler):
      done = False

      def handle(self, record):     # not emit(): the handler lock must not be held while this thread dawdles
        if slow_log and not SlowHandler.done and 'p.end' in dict(log) and _th.current_thread().name.startswith('<PhaseExecutorThread'):
          SlowHandler.done = True
          time.sleep(row['L'] / 2.0)
    sh = SlowHandler()
    logging.getLogger('openhtf').addHandler(sh)
    pe.PhaseExecutorThread._thread_finished = slow_finished
    try:
      if row.get('prof'):
        # per-phase profiling on: collecting the statistics of a phase must not tie the executor to a thread it
        # has given up on
        import os, tempfile
        fd, pf = tempfile.mkstemp(prefix='vf-c12-prof-')
        os.close(fd)
        try:
          t.execute(profile_filename=pf)
        finally:
          os.unlink(pf)
      else:
        t.execute()
    finally:
      pe.PhaseExecutorThread._thread_finished = orig_fin
      logging.getLogger('openhtf').removeHandler(sh)
    box['rec'] = out[0]
    box['log'] = [(e[0], round(e[1] - t0, 3)) for e in log]
  s = sched.Sched(max_steps=200000)
  try:
    s.run(main)
  except (sched.Deadlock, sched.StepBudget) as e:
    return ['the run never returns (%s)' % type(e).__name__]
  rec = box['rec']
  log = dict(box['log'])
  bad = []
  starts = sum(1 for e in box['log'] if e[0] == 'p.start')
  if row.get('rot') and row['outcome'] != 'TIMEOUT' and (starts != 1 or sum(1 for x in rec.phases if x.name == 'p') != 1):
    bad.append('a body that returned before its deadline was invoked %d times under repeat_on_timeout' % starts)
  from vf import build as b
  ph = {x.name: x for x in rec.phases}
  pr = b.result_kind(ph['p'].result) if 'p' in ph else 'missing'
  if row['outcome'] == 'TIMEOUT':
    if pr != 'TIMEOUT':
      bad.append('a phase still running at its deadline got result %s instead of TIMEOUT' % pr)
    if rec.outcome.name != 'TIMEOUT':
      bad.append('the run reports %s instead of TIMEOUT' % rec.outcome.name)
    if 'td' not in log:
      bad.append('teardown phase did not run after the timeout')
    elif log['td'] > row['proceedAt'] / 2.0 + 0.5:
      bad.append('the executor proceeded later than a bounded delay after the deadline')
    if 'plug-teardown' not in log:
      bad.append('plug tearDown did not run after the timeout')
    if 'after' in log:
      bad.append('a phase after the group ran although the run timed out')
  else:
    want, oc = RES[row['res']]
    if pr != want:
      bad.append('a body that returned before its deadline got result %s instead of its own %s' % (pr, want))
    if 'td' not in log or 'plug-teardown' not in log:
      bad.append('teardown / plug tearDown missing')
    elif log['td'] > row['proceedAt'] / 2.0 + 0.5:
      bad.append('the executor proceeded later than a bounded delay after the body returned / the deadline')
  return bad


def rows_work(rows):
  sys.argv = sys.argv[:1]
  from vf import build  # noqa: F401
  out = []
  for r in rows:
    for b in run_row(r):
      out.append((b, r))
  return len(rows), out


# ----------------------------------------------------------------------
def kill_run(policy, order):
  from vf import sched
  from openhtf.util import threads
  lines = order.endswith('-lines')      # every statement of threads.py is a scheduling point as well
  order = order.replace('-lines', '')
  s = sched.Sched(policy=policy, max_steps=40000, trace_files=('openhtf/util/threads.py',) if lines else ())
  box = {}

  def main():
    class KT(threads.KillableThread):
      def _thread_proc(self):
        s.emit('body-start')
        try:
          for i in range(2):
            sched.point('body')
            s.emit('body-step', i)
        except BaseException as e:
          s.emit('body-exc', type(e).__name__)
          raise
        s.emit('body-end')

      def _thread_exception(self, *a):
        s.emit('h-exc', a[0].__name__)
        return True

      def _thread_finished(self):
        try:
          sched.point('fin')
          s.emit('finished')
        except BaseException as e:
          s.emit('handler-exc', type(e).__name__)
          raise
    t = KT(name='T')
    # the thread's own lock and flag, found by type (their attribute names are private)
    own = {k: v for k, v in vars(t).items() if k not in vars(threading.Thread(target=None))}
    locks = [v for v in own.values() if isinstance(v, sched.CoopLock)]
    flags = [v for v in own.values() if isinstance(v, sched.CoopEvent)]
    if len(locks) != 1 or len(flags) != 1:
      raise RuntimeError('harness: KillableThread is expected to own exactly one lock and one event (found %d, %d)'
                         % (len(locks), len(flags)))
    locks[0].label = 'running'
    s.emit('killed-event', id(flags[0]))

    def starter():
      s.emit('start-call')
      t.start()

    def killer():
      s.emit('kill-call')
      try:
        t.kill()
      except BaseException as e:  # pylint: disable=broad-except
        s.emit('kill-raised', type(e).__name__)
        return
      s.emit('kill-ret')
    if order == 'kill-first':
      killer()
      starter()
      t.join()
    else:
      a = threading.Thread(target=starter, name='S')
      b = threading.Thread(target=killer, name='K')
      a.start()
      b.start()
      a.join()
      b.join()
      t.join()
  s.run(main)
  return s, box


def judge_kill(log, lines=False):
  """lines: the run had statement-level scheduling points; the two rules about WHERE an already
  requested asynchronous exception lands are not judged then (between the lock probe and the
  raise the body may return: the window the class docstring admits)"""
  bad = []
  names = [e[0] for e in log]
  idx = {n: names.index(n) for n in set(names)}
  kc, kr = idx.get('kill-call'), idx.get('kill-ret')
  sc = idx.get('start-call')
  rel = next((i for i, e in enumerate(log) if e[0] == 'rel' and e[1] == 'running' and e[2] == 'T'), None)
  if kr is not None and sc is not None and kr < sc and 'body-start' in idx:
    bad.append('the body ran although kill() had returned before the thread was started')
  if kc is not None and rel is not None and kc > rel:
    if 'body-exc' in idx or 'handler-exc' in idx or 'finished' not in idx:
      bad.append('a kill requested after the body returned had an effect')
  if 'kill-raised' in idx:
    bad.append('kill() raised %s in the killing thread' % log[idx['kill-raised']][1])
  kid = next((e[1] for e in log if e[0] == 'killed-event'), None)
  flag = next((i for i, e in enumerate(log) if e[0] == 'set' and e[1] == kid), None)
  acq = next((i for i, e in enumerate(log) if e[0] == 'acq' and e[1] == 'running' and e[2] == 'T'), None)
  if flag is not None and (acq is None or flag < acq) and 'body-start' in idx:
    bad.append('the kill flag was set before the thread took its running lock, yet the body ran (kill lost)')
  if 'handler-exc' in idx and not lines:
    bad.append('ThreadTerminationError surfaced in the finish handler, outside the body')
  if 'async_exc' in idx and 'body-exc' not in idx and 'handler-exc' not in idx and not lines:
    bad.append('an asynchronous kill was delivered but never raised in the thread')
  if 'finished' not in idx and not (lines and 'handler-exc' in idx):
    # (statement-level exploration: an exception that was requested while the body was still running may land in
    # the finish handler - the window the class docstring admits, see above)
    bad.append('the finish handler did not complete')
  return bad


def kill_explore(args):
  sys.argv = sys.argv[:1]
  order, bound = args
  from vf import explore
  import openhtf  # noqa: F401
  n, bad = 0, []
  for picks, decisions, box, failure in explore.explore(lambda p: kill_run(p, order), bound, max_runs=60000):
    n += 1
    if failure is not None:
      bad.append(('kill/start/run threads never finish (%s)' % type(failure).__name__, dict(order=order, schedule=picks)))
      continue
  return n, bad


def kill_explore_judged(args):
  sys.argv = sys.argv[:1]
  order, bound = args
  from vf import explore
  import openhtf  # noqa: F401
  n, bad = 0, []
  last = {}

  def run(p):
    s, box = kill_run(p, order)
    last['log'] = list(s.log)
    return s, box
  for picks, decisions, box, failure in explore.explore(run, bound, max_runs=60000):
    n += 1
    if failure is not None:
      bad.append(('kill/start/run threads never finish (%s)' % type(failure).__name__, dict(order=order, schedule=picks)))
      continue
    for b in judge_kill(last['log'], lines=order.endswith('-lines')):
      if len(bad) < 10:
        bad.append((b, dict(order=order, schedule=picks, log=[list(map(str, e)) for e in last['log']])))
  return n, bad


# ----------------------------------------------------------------------
def late_effects(_):
  sys.argv = sys.argv[:1]
  from vf import build, sched
  import openhtf as htf
  box = {}

  def main():
    gate = threading.Event()
    done = threading.Event()

    @htf.measures(htf.Measurement('m'))
    @htf.PhaseOptions(name='slow', timeout_s=2)
    def slow(test):
      try:
        time.sleep(1000)
      except BaseException:      # swallows the kill
        pass
      gate.wait()                # until the next phase is running
      test.measurements.m = 99
      test.attach('late', b'late data')
      test.logger.info('late log')
      done.set()
      return htf.PhaseResult.FAIL_AND_CONTINUE

    @htf.measures(htf.Measurement('m'))
    @htf.PhaseOptions(name='td1')
    def td1(test):
      gate.set()
      done.wait(50)
      test.measurements.m = 1

    @htf.measures(htf.Measurement('m'))
    @htf.PhaseOptions(name='td2')
    def td2(test):
      test.measurements.m = 2
    t = htf.Test(htf.PhaseGroup(main=[slow], teardown=[td1, td2]))
    out = []
    t.add_output_callbacks(out.append)
    t.execute()
    box['rec'] = out[0]
  s = sched.Sched(max_steps=400000)
  try:
    s.run(main)
  except (sched.Deadlock, sched.StepBudget) as e:
    return ['late-effects scenario never returns (%s)' % type(e).__name__]
  rec = box['rec']
  bad = []
  ph = {p.name: p for p in rec.phases}
  for name, want in (('td1', 1), ('td2', 2)):
    p = ph.get(name)
    if p is None:
      bad.append('teardown phase %s has no record' % name)
      continue
    if p.measurements['m'].measured_value.value != want:
      bad.append('a measurement set by an abandoned body appears in another phase\'s record')
    if 'late' in p.attachments:
      bad.append('an attachment made by an abandoned body appears in another phase\'s record')
    if build.result_kind(p.result) != 'CONTINUE' or p.outcome.name != 'PASS':
      bad.append('the result returned late by an abandoned body was attributed to another phase')
  if build.result_kind(ph['slow'].result) != 'TIMEOUT' or rec.outcome.name != 'TIMEOUT':
    bad.append('abandoned phase / run not reported as TIMEOUT')
  return bad


def main(chk):
  res = tlc.must_pass(tlc.run('PhaseTimeout', 'PhaseTimeout_mc.cfg', workers=2), 'PhaseTimeout design check')
  chk.add_tlc('PhaseTimeout', res)
  rows = [r[0] for r in res.prints('ROW')]
  # the timed-out rows once more with per-phase profiling enabled
  rows += [dict(r, prof=1) for r in rows if r['outcome'] == 'TIMEOUT']
  k = tlc.must_pass(tlc.run('KillableThread', 'KillableThread_mc.cfg', workers=2, coverage=True), 'KillableThread design check')
  chk.add_tlc('KillableThread (safety + termination)', k)
  neg = tlc.run('KillableThread', 'KillableThread_window.cfg', workers=2)
  if 'ConfinedToBody' not in neg.invariant_violated:
    raise tlc.TLCError('sensitivity: the non-atomic probe variant should violate ConfinedToBody')
  chk.cov['model_sensitivity'] = ('KillableThread.tla with probe and async-raise as two steps violates ConfinedToBody: the '
                                  'window the class docstring admits; not reachable at synchronisation-point granularity')
  quick = chk.tier == 'quick'
  with mp.Pool(14, maxtasksperchild=20) as pool:
    outs = pool.map(rows_work, [rows[i::28] for i in range(28)])
    for n, bad in outs:
      chk.traces += n
      chk.nontrivial += n
      for sig, r in bad:
        chk.violation(sig, dict(row=r))
    chk.sample(dict(part='timeout row', row=rows[3]))
    chk.log('%d timeout rows replayed in virtual time' % len(rows))
    jobs = [('kill-first', 2), ('concurrent', 3 if quick else 4), ('concurrent-lines', 2 if quick else 3)]
    for (order, bound), (n, bad) in zip(jobs, pool.map(kill_explore_judged, jobs)):
      chk.traces += n
      chk.nontrivial += n
      chk.tlc_runs.append(dict(name='dfs kill %s bound %d' % (order, bound), schedules=n))
      for sig, det in bad:
        chk.violation(sig, det)
      chk.log('kill scenario %s: %d schedules' % (order, n))
    for sig in pool.apply(late_effects, (0,)):
      chk.violation(sig, {})
    chk.traces += 1
  chk.cov['rule'] = ('timeout rows: T in {0,.5,2,3,3.5,4,7}s x D in 14 values incl. never x 4 body results (D != T); kill: all '
                     'interleavings with <= 2 (3) preemptions of starter, killer and thread; all distinct')
  chk.assumptions += ['virtual time; the never-returning body swallows the kill', 'D = T (tie) is not generated',
                      'bodies declared requires_state=True are outside the late-effects clause']
  return chk.finish(explanation='PhaseTimeout.tla and KillableThread.tla checked by TLC; rows replayed on the real executor in '
                    'virtual time; a real KillableThread explored by preemption-bounded DFS; late effects probed',
                    exhaustive=True)


def replay(path):
  with open(path) as fh:
    sc = json.load(fh)['scenario']
  sys.argv = sys.argv[:1]
  if 'row' in sc:
    from vf import build  # noqa: F401
    bad = run_row(sc['row'])
    if bad:
      print('VIOLATION property=C12 replay=%s\n  what: %s' % (path, bad[0]))
      return 1
    print('replay: row conforms')
    return 0
  print('re-run ./check C12 --tier quick')
  return 2
