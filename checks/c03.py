"""C03 - PhaseGroup teardown always runs once the group was entered.  Spec:
Executor.tla (TeardownOnce, NotEnteredNoRun, PlugTdAfterNodes; abort token A).

(i) program families with nested groups and every main/teardown/setup
behaviour incl. timeout and an operator abort arriving during any body
(cooperative scheduler, virtual time); (ii) [c03 abort sweep] one abort
injected at every scheduling point of whole runs (see abort_sweep)."""
import multiprocessing as mp

from checks import execlib
from vf import common

OWNED = {'teardown': 'teardown', 'calls': 'bodies', 'no_return': 'execute() did not return',
         'executor_crash': 'executor thread failed', 'plugs': 'plug tearDown order'}


def fam_nested():
  from vf.progs import beh, group, phase, program, subtest, branch
  out = []
  P = lambda n, b='CSE': phase(n, beh(b))
  # teardown inside teardown, group in setup/main/teardown positions, in subtest and branch
  for b in ('CSEXF', 'CAT'):
    inner = lambda i: group('gi%d' % i, [P('is%d' % i, b)], [P('im%d' % i, b)], [P('it%d' % i, 'CE')])
    out.append(program([group('g1', [inner(1)], [P('m1', b)], [P('t1', 'CE')])]))
    out.append(program([group('g1', [P('s1', b)], [inner(1)], [P('t1', 'CE'), P('t2', 'C')])]))
    out.append(program([group('g1', [], [P('m1', b)], [inner(1), P('t1', 'C')])]))
    out.append(program([subtest('s1', [P('a', 'CX'), group('g1', [P('s1', 'CX')], [P('m1', b)], [P('t1', 'CE')])]),
                        P('z', 'C')]))
    out.append(program([phase('p0', beh('C', ds=[('0',), ('a',)]), ndiag=1),
                        branch('b1', 'ANY', ('a',), [group('g1', [], [P('m1', b)], [P('t1', 'CES'), P('t2', 'C')])]),
                        P('z', 'C')]))
  return out


def families(tier):
  fams = [('groups4', execlib.fam_groups(4, 'CSEXF')),
          ('groups3-abort-timeout', execlib.fam_groups(3, 'CAT')),
          ('nested', fam_nested()),
          ('teardown-nesting', execlib.fam_teardown_nesting())]
  if tier != 'quick':
    fams += [('groups5', execlib.fam_groups(5, 'CSEX')),
             ('groups4-abort-timeout', execlib.fam_groups(4, 'CATE'))]
  return fams


def abort_sweep(chk):
  """a single abort arriving at any scheduling point of whole runs (between
  bodies, inside the executor's own steps): the schedule sweep of the C04 check,
  judged here on the teardown clauses only"""
  import sys
  from checks import c04
  from vf import tlc
  res = tlc.must_pass(tlc.run('AbortHandshake', 'AbortHandshake_fixed.cfg', workers=8), 'AbortHandshake design check')
  chk.add_tlc('AbortHandshake (EnteredMeansTeardown, SetupFailedNothingRuns, TeardownAllRun under one or two aborts)', res)
  neg = tlc.run('AbortHandshake', 'AbortHandshake_postloop.cfg', workers=8)
  if 'EnteredMeansTeardown' not in neg.invariant_violated:
    raise tlc.TLCError('sensitivity: PostLoopAbortCheck=TRUE should violate EnteredMeansTeardown')
  sys.argv = sys.argv[:1]
  from vf import build, explore  # noqa: F401
  quick = chk.tier == 'quick'
  jobs = []
  for prog_name, source, na in (('group', 'thread', 1), ('group', 'sigint', 1), ('start', 'thread', 1), ('nested', 'thread', 1),
                                ('stubborn', 'thread', 1), ('deadline', 'none', 0)):
    roots = explore.split_roots(c04.make_run(prog_name, source, na), 1, 6)
    cap = 4000 if quick else 40000
    per = max(50, cap // max(1, len(roots)))
    for r in roots:
      jobs.append((prog_name, source, na, 1, r, per))
  seeds = [chk.seed * 7919 + i for i in range(150 if quick else 2000)]
  rjobs = [('group', 'thread', 1, seeds[k::6]) for k in range(6)]
  with mp.Pool(14, maxtasksperchild=8) as pool:
    outs = pool.map(c04.explore_job, jobs, chunksize=1) + pool.map(c04.random_job, rjobs, chunksize=1)
  n = 0
  for o in outs:
    n += o['n']
    for sig, det in o['bad']:
      if 'teardown phase of a' in sig or 'plug tearDown did not run' in sig:
        chk.violation(sig, det)
  chk.traces += n
  chk.nontrivial += n
  chk.tlc_runs.append(dict(name='abort sweep (single abort at every scheduling point)', schedules=n))
  chk.log('%d schedules with a single abort judged on the teardown clauses' % n)


def main(chk):
  execlib.run_families(chk, families(chk.tier), OWNED)
  abort_sweep(chk)
  chk.cov['rule'] = ('group nestings x behaviours incl. timeout and abort-during-body; non-trivial = at '
                     'least two invocations or one record')
  chk.assumptions += ['the abort sweep places the abort at synchronisation operations, flag reads and body points']
  return chk.finish(explanation='TeardownOnce/NotEnteredNoRun checked by TLC on Executor.tla; every emitted '
                    'scenario replayed (scheduler + virtual time for abort/timeout) and the teardown rules '
                    'evaluated on the real call log', exhaustive=True)


def replay(path):
  return execlib.replay_file(path, OWNED, 'C03', families)
