"""C06 - measurement outcome = all validators on the recorded (transformed)
value.  Spec: specs/Measurement.tla.

TLC checks OutcomeFormula / MarginalFormula / NoPartiallySet / OrderStable /
RejectedChangeNothing ... on the model (exhaustive, history hidden by a VIEW)
and emits every assignment history up to the bound for every configuration of
validators and transforms; each history is executed by a real phase body and
the in-memory measurements are compared with the model after every
statement and in the final phase record."""
import concurrent.futures as cf
import json
import multiprocessing as mp

from checks import measlib
from vf import common, tlaval, tlc

OWNED = {'exception': 'exception surfaced to the phase body', 'state': 'measurement state',
         'final': 'recorded measurement', 'phase_error': 'phase error'}


def emit_and_replay(chk, cfgs, maxops, nfam, owned, note_cats=()):
  mod = measlib.module(cfgs)
  shards = [cfgs[i:i + 4] for i in range(0, len(cfgs), 4)]

  def one(sh):
    return sh, tlc.run('MCMeas', measlib.CFG_EMIT % maxops, gen={'MCMeas.tla': measlib.module(sh)},
                       workers=2, heap='2g')
  total = 0
  with mp.Pool(14, maxtasksperchild=20) as pool, cf.ThreadPoolExecutor(8) as ex:
    pend = []
    for fu in cf.as_completed([ex.submit(one, sh) for sh in shards]):
      sh, res = fu.result()
      tlc.must_pass(res, 'Measurement emit')
      chk.states += res.distinct
      chk.transitions += res.generated
      for i, c in enumerate(tlaval.split_prints(res.out, 'HIST', 8)):
        pend.append(pool.apply_async(measlib.work, ((sh, c, chk.seed + i, nfam),)))
    for p in pend:
      o = p.get()
      total += o['n']
      chk.traces += o['n']
      chk.nontrivial += o['nontrivial']
      if o['sample']:
        chk.sample(o['sample'])
      for b in o['bad']:
        for cat, msg in b['mismatches']:
          sig = common_sig(msg)
          if cat in owned:
            chk.violation('%s: %s' % (owned[cat], sig), b)
          elif cat in note_cats or True:
            chk.note('nonconformance outside this property (%s): %s' % (cat, sig))
  chk.tlc_runs.append(dict(name='emit', configs=len(cfgs), maxops=maxops, histories=total))
  chk.log('%d histories (x families) replayed' % total)


def common_sig(msg):
  import re
  msg = re.sub(r' shows (\w+) measurement .*', r' shows \1 measurement differently from the in-memory record', msg)
  msg = re.sub(r' measurement is \(.*', ' measurement differs from the in-memory state', msg)
  msg = re.sub(r' is \(.*', ' differs from the model', msg)
  msg = re.sub(r' is \[.*', ' differs from the model', msg)
  msg = re.sub(r"raised '.*", 'raised a different exception than the model', msg)
  return msg[:150]


def design(chk, cfgs, maxops):
  res = tlc.must_pass(tlc.run('MCMeas', measlib.CFG_MC % maxops,
                              gen={'MCMeas.tla': measlib.module(cfgs)}, coverage=True, heap='4g'),
                      'Measurement design check')
  cov = res.coverage()
  for a in ('SetS', 'SetD', 'Rejected', 'Read', 'EndPhase'):
    if not cov.get(a, (0, 0))[1]:
      raise tlc.TLCError('vacuity: action %s never taken' % a)
  chk.add_tlc('design', res, action_counts={k: v[1] for k, v in cov.items()})


def main(chk):
  cfgs = measlib.configs(chk.tier)
  design(chk, cfgs, 5)
  emit_and_replay(chk, cfgs, 3 if chk.tier == 'quick' else 4, 1 if chk.tier == 'quick' else 2, OWNED)
  # "(plus conditional validators whose diagnosis result existed when the phase started)" across executions of one
  # Test object: the diagnosis exists in the first execution only
  from checks import c11
  with mp.Pool(1) as pool:
    sigs = pool.apply(c11.repeated_runs, (0,))
  chk.traces += 1
  chk.nontrivial += 1
  for sig in sigs:
    if 'conditional validator' in sig:
      chk.violation('a conditional validator whose diagnosis result did not exist when the phase started decided the '
                    'measurement (armed by an earlier execution)', dict(scenario='repeated executions', detail=sig))
  chk.cov['rule'] = ('every history of <= MaxOps body statements (set / override / per-coordinate set / rejected '
                     'assignments / reads) x validator lists x transforms, enumerated by TLC; non-trivial = at '
                     'least two statements before the phase ends')
  chk.assumptions += ['validators are abstract callables (accept/marginal/raise sets); built-in validators are C07',
                      'values are concretised by %d families incl. None, NaN, strings, 10**30, -0.0' % len(measlib.FAMILIES)]
  return chk.finish(explanation='Measurement.tla invariants checked by TLC; emitted histories executed by real '
                    'phase bodies, in-memory measurement state compared after every statement and in the record',
                    exhaustive=True)


def replay(path):
  with open(path) as fh:
    sc = json.load(fh)['scenario']
  import sys
  sys.argv = sys.argv[:1]
  if sc.get('scenario') == 'repeated executions':
    from checks import c11
    sigs = [s for s in c11.repeated_runs(0) if 'conditional validator' in s]
    if sigs:
      print('VIOLATION property=C06 replay=%s\n  what: %s' % (path, sigs[0]))
      return 1
    print('replay: conditional validators apply only in the execution that has their diagnosis')
    return 0
  bad = [b for b in measlib.replay_one(sc) if b[0] in OWNED]
  for cat, msg in bad:
    print('VIOLATION property=C06 replay=%s\n  what: %s' % (path, msg))
    return 1
  print('replay: history conforms')
  return 0
