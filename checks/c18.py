"""C18 - state subscriptions never lose an update.  Spec: specs/Subscribe.tla
(PlusCal: watchers register / snapshot / wait, updaters change / notify).

1. TLC: NoLostUpdate, StaysSet, WakesAll, FinalObserved, Termination (weak
   fairness) for 2 watchers x 2 updaters x 2 changes; the same model with the
   snapshot taken before registering violates NoLostUpdate (sensitivity).
2. code->spec: the real SubscribableStateMixin is driven by 2 watcher and 2
   updater threads under the deterministic scheduler; every schedule with at most
   1 (quick) / 2 (thorough) preemptions is executed; each run's event log (lock
   acquire/release, snapshot, change, event set, wake-up) is validated by TLC
   against Subscribe_trace.tla (which re-uses Subscribe's actions) and judged on
   deadlock.
3. watcher threads attached to whole test runs (real TestState) and to a
   UserInput plug under seeded random schedules: the snapshot-then-wait loop must
   end having observed COMPLETED; in-body probes check that a measurement, log
   record and dut_id change set a previously obtained event."""
import json
import multiprocessing as mp
import random
import sys
import threading

from vf import common, tlaval, tlc, tracecheck

NW, NU, CH = 2, 2, 2


def to_trace(log):
  """scheduler/harness log -> Subscribe_trace events.  The snapshot event is
  the 'got' record (its version is what _asdict returned)."""
  ev2w = {}
  for e in log:
    if e[0] == 'got':
      ev2w[e[2]] = e[1]
  out = []
  pending_snap = {}
  for e in log:
    if e[0] in ('acq', 'rel') and e[1] == 'sub':
      out.append(dict(e=e[0], t=e[2]))
    elif e[0] == 'set' and e[1] in ev2w:
      out.append(dict(e='set', w=ev2w[e[1]]))
    elif e[0] == 'snapshot':
      out.append(dict(e='snap', w=e[1], v=e[2]))
    elif e[0] == 'chg':
      out.append(dict(e='chg', u=e[1], v=e[2]))
    elif e[0] == 'woke':
      out.append(dict(e='woke', w=e[1]))
  return out


def collect(args):
  """explore and return traces (list of event lists) + deadlocked schedules"""
  sys.argv = sys.argv[:1]
  bound, root, maxruns, mutant = args
  from vf import explore
  import openhtf  # noqa: F401
  out, dead = [], []

  def run(policy):
    s, box = mixin_run(policy, mutant)
    return s, box
  try:
    for picks, decisions, box, failure in explore.explore(run, bound, max_runs=maxruns, root=root):
      if failure is not None:
        dead.append(dict(schedule=picks, detail=str(failure)[:300]))
        continue
      out.append((picks, _trace_of_last()))
  except Exception:  # pylint: disable=broad-except
    import traceback
    raise RuntimeError('worker failed:\n' + traceback.format_exc())
  return out, dead


_LAST = {}


def _trace_of_last():
  return _LAST.get('trace')



def mixin_run(policy, mutant=False):
  from vf import sched
  from openhtf import util
  s = sched.Sched(policy=policy, max_steps=20000, trace_events=True)
  box = {}

  def main():
    class Obj(util.SubscribableStateMixin):
      def __init__(self):
        super().__init__()
        self.version = 0

      def _asdict(self):
        s.emit('snapshot', threading.current_thread().name, self.version)
        return {'v': self.version}
    if mutant:
      def asdict_with_event(self):
        import weakref
        from vf import sched as _s2
        event = threading.Event()
        state = self._asdict()
        lock = next(v for v in vars(self).values() if isinstance(v, _s2.CoopLock))
        events = next(v for v in vars(self).values() if isinstance(v, weakref.WeakSet))
        with lock:
          events.add(event)
        return state, event
      Obj.asdict_with_event = asdict_with_event
    obj = Obj()
    from vf import sched as _s
    locks = [v for v in vars(obj).values() if isinstance(v, _s.CoopLock)]
    if len(locks) != 1:
      raise RuntimeError('harness: the mixin is expected to own exactly one lock (found %d)' % len(locks))
    locks[0].label = 'sub'
    total = NU * CH
    keep = []

    def watcher(i):
      name = 'w%d' % i
      while True:
        state, ev = obj.asdict_with_event()
        keep.append(ev)
        s.emit('got', name, id(ev), state['v'])
        if state['v'] == total:
          break
        ev.wait()
        s.emit('woke', name)

    def updater(j):
      name = 'u%d' % j
      for _ in range(CH):
        obj.version += 1
        s.emit('chg', name, obj.version)
        obj.notify_update()
    ths = [threading.Thread(target=watcher, args=(i,), name='w%d' % i) for i in range(NW)]
    ths += [threading.Thread(target=updater, args=(j,), name='u%d' % j) for j in range(NU)]
    for t in ths:
      t.start()
    for t in ths:
      t.join()
  try:
    s.run(main)
  finally:
    _LAST['trace'] = to_trace(s.log)
  return s, box


def dfs_traces(pool, bound, maxruns, mutant=False):
  from vf import explore
  sys.argv = sys.argv[:1]
  roots = explore.split_roots(lambda p: mixin_run(p, mutant), bound, 9)
  outs = pool.map(collect, [(bound, r, maxruns, mutant) for r in roots])
  traces, dead = [], []
  for o, d in outs:
    traces += o
    dead += d
  return traces, dead


def validate(chk, traces, label, chunk=20000):
  """batch trace validation, at most `chunk` traces per TLC invocation (the Json
  module reads the whole batch into memory)"""
  rejected, inv, total_acc = [], [], 0
  for off in range(0, len(traces), chunk):
    part = traces[off:off + chunk]
    batch = [dict(id=i + 1, ev=t) for i, (picks, t) in enumerate(part)]
    res, accepted = tracecheck.validate('Subscribe_trace', 'Subscribe_trace.cfg', batch, workers=8)
    if res.error:
      raise tlc.TLCError('trace validation failed: %s\n%s' % (res.error, res.out[-3000:]))
    chk.add_tlc('trace validation (%s%s)' % (label, '' if len(traces) <= chunk else ', part %d' % (off // chunk + 1)),
                res, traces=len(batch), accepted=len(accepted))
    rejected += [off + i for i in range(1, len(batch) + 1) if i not in accepted]
    inv += res.invariant_violated
    total_acc += len(accepted)
  return rejected, inv


# ----------------------------------------------------------------------
# whole test runs with watcher threads

def whole_run(seed, nphases=3):
  from vf import sched
  import openhtf as htf
  from vf import build
  rng = random.Random(seed)
  # every statement of test_state.py is a scheduling point: the snapshot code (as_base_types) and the
  # notification code (_notify) share state without a common lock
  s = sched.Sched(policy=sched.RandomPolicy(rng, 0.3), max_steps=2000000, trace_files=('openhtf/core/test_state.py', 'openhtf/util/logs.py'))
  box = dict(bad=[], final=[])

  def main():
    probes = []

    def mk(i):
      def body(state):
        api = state.test_api
        _, ev = state.asdict_with_event()
        api.measurements.m = i
        if not ev.is_set():
          probes.append('setting a measurement value did not set a previously obtained event')
        _, ev = state.asdict_with_event()
        api.logger.info('log %d', i)
        if not ev.is_set():
          probes.append('a log record did not set a previously obtained event')
        _, ev = state.asdict_with_event()
        api.dut_id = 'dut%d' % i
        if not ev.is_set():
          probes.append('setting dut_id did not set a previously obtained event')
        # the last change of this phase, then silence: once every watcher has gone back to
        # waiting, the view each of them holds must contain it ("a watcher can never miss a change")
        api.measurements.last = 10 + i
        import time
        time.sleep(0.5)
        for k, (name, val, dval) in sorted(latest.items()):
          if name == 'ph%d' % i and val != 10 + i:
            probes.append('a watcher looping on snapshot-then-wait is left with a stale view of a measurement')
        # ... and for a log record
        api.logger.info('last words of ph%d', i)
        time.sleep(0.5)
        for k, msgs in sorted(latest_logs.items()):
          if 'last words of ph%d' % i not in msgs:
            probes.append('a watcher looping on snapshot-then-wait is left with a view that lacks the last log record')
        # the same for a dimensioned measurement whose coordinate is overridden (the override also logs a warning)
        api.measurements.ld[0] = 1
        time.sleep(0.5)
        api.measurements.ld[0] = 20 + i
        time.sleep(0.5)
        for k, (name, val, dval) in sorted(latest.items()):
          if name == 'ph%d' % i and [list(x) for x in (dval or [])] != [[0, 20 + i]]:
            probes.append('a watcher looping on snapshot-then-wait is left with a stale view of an overridden '
                          'dimensioned measurement')
      body.__name__ = 'ph%d' % i
      return htf.measures(htf.Measurement('m'), htf.Measurement('last'), htf.Measurement('ld').with_dimensions('x'))(
          htf.PhaseOptions(name='ph%d' % i, requires_state=True)(body))
    test = htf.Test(*[mk(i) for i in range(nphases)])
    latest = {}
    latest_logs = {}
    done = []
    test.add_output_callbacks(done.append)

    def watcher(k):
      # attach to the running test's state as soon as it exists
      st = None
      while st is None:
        st = test.state
        if st is None:
          if done:
            box['final'].append((k, 'never attached'))
            return
          sched.point('watcher.spin')
          import time
          time.sleep(0.001)
      seen = []
      while True:
        d, ev = st.asdict_with_event()
        seen.append((d['status'], (d['running_phase_state'] or {}).get('name')))
        latest_logs[k] = [r.get('message') for r in (d.get('test_record') or {}).get('log_records', [])]
        rp = d['running_phase_state']
        if rp:
          ms = rp.get('measurements') or {}
          latest[k] = (rp.get('name'), (ms.get('last') or {}).get('measured_value'), (ms.get('ld') or {}).get('measured_value'))
        if d['status'] == 'COMPLETED':
          break
        ev.wait()
      box['final'].append((k, seen[-1][0]))
    ws = [threading.Thread(target=watcher, args=(k,), name='watch%d' % k) for k in range(2)]
    for w in ws:
      w.start()
    test.execute()
    for w in ws:
      w.join()
    box['bad'] += probes
  try:
    s.run(main)
  except (sched.Deadlock, sched.StepBudget) as e:
    box['bad'].append('a watcher is left blocked forever on a finished test (%s)' % type(e).__name__)
    return box
  for k, fin in box['final']:
    if fin not in ('COMPLETED', 'never attached'):
      box['bad'].append('a watcher loop ended without observing COMPLETED')
  return box


def whole_runs(args):
  sys.argv = sys.argv[:1]
  seeds = args
  from vf import build  # noqa: F401
  bad = []
  for sd in seeds:
    b = whole_run(sd)
    for m in b['bad']:
      bad.append((m, dict(seed=sd)))
  return len(seeds), bad


def userinput_run(policy):
  """the real UserInput plug: a phase thread prompts twice, a frontend thread
  answers what it sees (snapshot + event protocol), a second one answers a stale id"""
  from vf import sched
  from openhtf.plugs import user_input
  s = sched.Sched(policy=policy, max_steps=40000)
  box = dict(results=[], answers={}, stale=0)

  def main():
    ui = user_input.UserInput()

    def phase():
      for k in range(2):
        pid = ui.start_prompt('question %d' % k, text_input=True)
        box.setdefault('ids', []).append(pid)
        try:
          box['results'].append((pid, ui.wait_for_prompt(timeout_s=5)))
        except user_input.PromptUnansweredError:
          box['results'].append((pid, None))
          ui.remove_prompt()

    def frontend():
      answered = 0
      while answered < 2:
        state, ev = ui.asdict_with_event()
        if state is not None and state['id'] not in box['answers']:
          box['answers'][state['id']] = 'answer to %s' % state['message']
          ui.respond(state['id'], box['answers'][state['id']])
          answered += 1
          continue
        if not ev.wait(20):
          return

    def stale():
      sched.point('stale')
      ui.respond('no-such-prompt', 'bogus')
      ids = list(box.get('ids', []))
      if ids:
        ui.respond(ids[0], 'late answer to the first prompt')
        box['stale'] = 1
    ths = [threading.Thread(target=phase, name='phase'), threading.Thread(target=frontend, name='frontend'),
           threading.Thread(target=stale, name='stale')]
    for t in ths:
      t.start()
    for t in ths:
      t.join()
    box['final'] = ui._asdict()
  s.run(main)
  return s, box


def end_run(how):
  """a real TestState in RUNNING with one looping watcher is finished through one of the end paths (abort,
  terminal phase outcome, timeout, normal end) - nothing else happens afterwards: "every change of status is
  followed by a notification", "no watcher is left blocked forever on a finished test".  Every statement of
  test_state.py is a scheduling point."""
  def run(policy):
    from vf import build, sched
    import openhtf as htf
    from openhtf.core import phase_collections, phase_executor, test_descriptor, test_record, test_state
    s = sched.Sched(policy=policy, max_steps=200000, trace_files=('openhtf/core/test_state.py',))
    box = dict(seen=[])

    def main():
      build.reset_process_globals()
      ph = htf.PhaseOptions(name='only')(lambda test: None)
      desc = test_descriptor.TestDescriptor(phase_collections.PhaseSequence((ph,)),
                                            test_record.CodeInfo.uncaptured(), {'config': {}})
      state = test_state.TestState(desc, 'c18-end-%s' % how, test_descriptor.TestOptions())
      state.mark_test_started()
      state.set_status_running()

      def watcher():
        while True:
          d, ev = state.asdict_with_event()
          if how == 'phase':
            # the last update of this scenario is the end of a phase: recorded and no longer running
            over = d['running_phase_state'] is None and len(d['test_record']['phases']) == 1
            box['seen'].append('COMPLETED' if over else 'phase running / not recorded')
            if over:
              return
          else:
            box['seen'].append(d['status'])
            if d['status'] == 'COMPLETED':
              return
          ev.wait()
      w = threading.Thread(target=watcher, name='watch')
      w.start()
      if how == 'phase':
        with state.running_phase_context(ph):
          pass
      elif how == 'abort':
        state.abort()
      elif how == 'stop':
        state.finalize_from_phase_outcome(phase_executor.PhaseExecutionOutcome(htf.PhaseResult.STOP), 'only')
      elif how == 'timeout':
        state.finalize_from_phase_outcome(phase_executor.PhaseExecutionOutcome(None), 'only')
      else:
        state.finalize_normally()
      box['status'] = state._status.name if hasattr(state, '_status') else None
      w.join()
      state.close()
    s.run(main)
    return s, box
  return run


def end_job(args):
  sys.argv = sys.argv[:1]
  how, bound, maxruns = args
  from vf import build, explore  # noqa: F401
  threading.excepthook = lambda a: None
  n, bad = 0, []
  for picks, decisions, box, failure in explore.explore(end_run(how), bound, max_runs=maxruns):
    n += 1
    if failure is not None:
      if len(bad) < 3:
        bad.append((('a watcher looping on snapshot-then-wait is left blocked forever on a finished test (end path: %s): the '
                     'change of status to COMPLETED is not followed by a notification' % how) if how != 'phase' else
                    'a watcher looping on snapshot-then-wait is left with a view in which the finished phase is still running: '
                    'the change of the running phase is not followed by a notification',
                    dict(scenario='end', how=how, schedule=picks, failure=type(failure).__name__)))
    elif box['seen'][-1:] != ['COMPLETED']:
      bad.append(('a looping watcher did not observe the final COMPLETED state', dict(scenario='end', how=how, schedule=picks)))
  return n, bad


def userinput_job(bound):
  sys.argv = sys.argv[:1]
  from vf import explore
  import openhtf  # noqa: F401
  n, bad = 0, []
  for picks, decisions, box, failure in explore.explore(userinput_run, bound, max_runs=30000):
    n += 1
    if failure is not None:
      bad.append(('UserInput: prompt / respond threads never finish (%s)' % type(failure).__name__, dict(schedule=picks)))
      continue
    for pid, resp in box['results']:
      ok = (box['answers'].get(pid), 'late answer to the first prompt' if pid == box['ids'][0] else None, None)
      if resp not in ok:
        bad.append(('UserInput: wait_for_prompt returned a response that was not given for that prompt',
                    dict(schedule=picks, got=resp)))
      if resp is None and pid in box['answers'] and False:
        pass
    if box['final'] is not None:
      bad.append(('UserInput: a prompt is still displayed after it was answered or abandoned', dict(schedule=picks)))
  return n, bad[:5]


def main(chk):
  ui = tlc.must_pass(tlc.run('UserInput', 'UserInput_mc.cfg', workers=8), 'UserInput design check')
  chk.add_tlc('UserInput prompt protocol (safety + PhaseReturns)', ui)
  res = tlc.must_pass(tlc.run('Subscribe', 'Subscribe_mc.cfg', workers=8, coverage=True), 'Subscribe design check')
  chk.add_tlc('Subscribe design (safety + liveness)', res)
  neg = tlc.run('Subscribe', 'Subscribe_mutant.cfg', workers=8)
  if 'NoLostUpdate' not in neg.invariant_violated:
    raise tlc.TLCError('sensitivity: snapshot-before-register model does not violate NoLostUpdate')
  chk.cov['model_sensitivity'] = 'Subscribe.tla with SnapFirst=TRUE violates NoLostUpdate'
  quick = chk.tier == 'quick'
  with mp.Pool(14, maxtasksperchild=10) as pool:
    traces, dead = dfs_traces(pool, 1 if quick else 2, 100000)
    chk.traces += len(traces) + len(dead)
    chk.nontrivial += len(traces) + len(dead)
    for d in dead[:5]:
      chk.violation('watcher/updater threads on the mixin never finish (a watcher is left blocked forever)', d)
    rejected, inv = validate(chk, traces, 'mixin dfs')
    for i in rejected[:5]:
      chk.violation('an execution of the real mixin is not a behaviour of Subscribe.tla (trace rejected by TLC)',
                    dict(schedule=traces[i - 1][0], trace=traces[i - 1][1]))
    if inv:
      chk.violation('NoLostUpdate violated on a recorded execution', dict(invariants=inv))
    chk.sample(dict(part='mixin trace', schedule=traces[0][0][:12], events=traces[0][1][:10]))
    chk.log('%d schedules of the mixin explored, %d deadlocked, %d traces rejected' % (len(traces) + len(dead), len(dead), len(rejected)))
    # binding demonstration: the mutant's traces must be rejected
    mt, md = dfs_traces(pool, 1, 400, mutant=True)
    if mt:
      rej, _ = validate(chk, mt, 'binding self-test (harness-side mutant)')
      if not rej and not md:
        raise tlc.TLCError('selftest: traces of the snapshot-before-register mutant were all accepted')
      chk.cov['binding_selftest'] = ('%d of %d traces of a harness-side snapshot-before-register variant rejected, '
                                     '%d deadlocked' % (len(rej), len(mt), len(md)))
    n_ui, bad_ui = pool.apply(userinput_job, (1 if quick else 2,))
    chk.traces += n_ui
    chk.nontrivial += n_ui
    chk.tlc_runs.append(dict(name='dfs UserInput prompt/respond', schedules=n_ui))
    for sig, det in bad_ui:
      chk.violation(sig, det)
    chk.log('%d schedules of the UserInput plug' % n_ui)
    ends = pool.map(end_job, [(how, 1 if quick else 2, 3000 if quick else 30000) for how in ('abort', 'stop', 'timeout', 'normal', 'phase')])
    for n_e, bad_e in ends:
      chk.traces += n_e
      chk.nontrivial += n_e
      for sig, det in bad_e:
        chk.violation(sig, det)
    chk.tlc_runs.append(dict(name='dfs end of run with a looping watcher (4 end paths, end of a phase)', schedules=sum(n for n, _ in ends)))
    chk.log('%d schedules of the end of a run with a looping watcher' % sum(n for n, _ in ends))
    nseeds = 150 if quick else 1500
    seeds = [chk.seed * 100000 + i for i in range(nseeds)]
    outs = pool.map(whole_runs, [seeds[i::14] for i in range(14)])
    for n, bad in outs:
      chk.traces += n
      chk.nontrivial += n
      for sig, det in bad:
        chk.violation(sig, det)
    chk.log('%d whole test runs with attached watchers' % nseeds)
  chk.cov['rule'] = ('all interleavings with <= 1 (quick) / 2 (thorough) preemptions of 2 watchers x 2 updaters x 2 changes on '
                     'the real mixin; seeded random schedules of whole test runs with 2 watcher threads; all distinct')
  chk.assumptions += ['preemption only at synchronisation operations and harness points',
                      'the watcher attached to a whole run polls Test.state until the executor has created it']
  return chk.finish(explanation='Subscribe.tla checked by TLC (safety + termination); executions of the real mixin validated '
                    'by TLC against Subscribe_trace.tla; whole runs with watcher threads under random schedules',
                    exhaustive=True)


def replay(path):
  print('re-run ./check C18 --tier quick; schedules are recorded in the replay file')
  return 2
