"""C13 - ADB message framing.  Spec: specs/AdbFraming.tla.

Part 1: the corruption table (TLC-emitted rows) replayed on the real
AdbTransportAdapter over a fake chunk transport with several concretisations
of arguments and payloads: header layout, round trip, rejection class.
Part 2: the lock protocol of two writers / two readers is model-checked
(NoInterleaveOnWire, WholeFramePerReader; the same model without locks
violates them) and the real adapter is explored under the cooperative
scheduler with preemption-bounded DFS; every run's chunk log is judged against
the same formulas."""
import itertools
import json
import random
import struct
import sys
import threading

from vf import common, tlaval, tlc

WIRE = {c: sum(ord(ch) << (i * 8) for i, ch in enumerate(c))
        for c in ('SYNC', 'CNXN', 'AUTH', 'OPEN', 'OKAY', 'CLSE', 'WRTE')}
ARGS = [0, 1, 2 ** 32 - 1]
ALPHA = ['\x00', '\xff', '\n']


def payloads(n, rng, big):
  out = [''.join(p) for p in itertools.product(ALPHA, repeat=n)] if n <= 2 else \
      [''.join(rng.choice(ALPHA) for _ in range(n)) for _ in range(3)]
  if big and n == 3:
    out.append(''.join(chr(rng.randrange(256)) for _ in range(4096)))
    out.append('\xff' * 4096)
  return out


def header_of(cmd, a0, a1, data):
  w = WIRE[cmd]
  return struct.pack('<6I', w, a0, a1, len(data), sum(ord(c) for c in data) & 0xFFFFFFFF, w ^ 0xFFFFFFFF)


# command words that are no ADB command: arbitrary text, the ids of the file-sync sub-protocol (which travel
# inside WRTE payloads, never as a command), a real id in lower case, the extremes
UNKNOWN = [0x58585858] + [struct.unpack('<I', c)[0] for c in (b'DATA', b'STAT', b'DONE', b'FAIL', b'SEND', b'RECV', b'LIST',
                                                                 b'DENT', b'okay')] + [0, 0xFFFFFFFF]


def corrupt(kind, cmd, a0, a1, data, variant=0):
  w = WIRE[cmd]
  ln, sm, mg = len(data), sum(ord(c) for c in data) & 0xFFFFFFFF, w ^ 0xFFFFFFFF
  pay = data
  if kind == 'len+1':
    ln += 1
  elif kind == 'len-1':
    ln -= 1
  elif kind == 'sum+1':
    sm = (sm + 1) & 0xFFFFFFFF
  elif kind == 'sum-1':
    sm = (sm - 1) & 0xFFFFFFFF
  elif kind == 'cmd-unknown':
    w = UNKNOWN[variant % len(UNKNOWN)]
  elif kind == 'magic-wrong':
    mg ^= 0x0F0F0F0F
  elif kind == 'payload-short':
    pay = data[:-1]
  elif kind == 'payload-other':
    pay = data[:-1] + chr((ord(data[-1]) + 1) % 256) if data else data
  hdr = struct.pack('<6I', w, a0, a1, ln & 0xFFFFFFFF, sm, mg)
  if kind == 'header-short':
    hdr = hdr[:10]
  elif kind == 'header-empty':
    hdr = b''
  return [hdr, pay]


def part1(rows, seed, big):
  from vf import usbfake
  am, ue, to = usbfake.adb_message, usbfake.usb_exceptions, usbfake.timeouts
  rng = random.Random(seed)
  bad = []
  n = 0
  import importlib
  importlib.import_module('openhtf.plugs.usb.filesync_service')     # as the package does through adb_device
  for r in rows:
    if r['c'] == 'len-1' and r['paylen'] == 0:
      continue
    for data in payloads(r['paylen'], rng, big):
      if r['c'] == 'len-1' and data.endswith('\x00'):
        continue   # dropping a trailing NUL keeps the byte sum: the shortened frame is itself valid
      for a0, a1 in ((0, 2 ** 32 - 1), (1, 0), (2 ** 32 - 1, 1)):
        n += 1
        det = dict(row=r, a0=a0, a1=a1, payload=repr(data[:16]), paylen=len(data))
        t = usbfake.ChunkTransport()
        ad = am.AdbTransportAdapter(t)
        ad.write_message(am.AdbMessage(r['cmd'], a0, a1, data), to.PolledTimeout.from_millis(1000))
        if len(t.tx) != 2 or t.tx[0] != header_of(r['cmd'], a0, a1, data) or t.tx[1] != data:
          bad.append(('written frame is not header(24 bytes, little endian) immediately followed by the payload', det))
          continue
        # the same message object written again after its public fields were changed: every written
        # frame's header describes the payload that follows it
        msg = am.AdbMessage(r['cmd'], a0, a1, data)
        t2 = usbfake.ChunkTransport()
        ad2 = am.AdbTransportAdapter(t2)
        ad2.write_message(msg, to.PolledTimeout.from_millis(1000))
        msg.data = data + 'z'
        msg.arg0, msg.arg1 = a1, a0
        ad2.write_message(msg, to.PolledTimeout.from_millis(1000))
        if t2.tx[2:] != [header_of(r['cmd'], a1, a0, data + 'z'), data + 'z']:
          bad.append(('a message object written again after its fields changed goes out with a stale header', det))
        t.rx = corrupt(r['c'], r['cmd'], a0, a1, data, variant=n)
        try:
          m = ad.read_message(to.PolledTimeout.from_millis(1000))
          got = ('deliver', (m.command, m.arg0, m.arg1, m.data))
        except (ue.AdbDataIntegrityError, ue.AdbProtocolError) as e:
          got = ('reject', type(e).__name__)
        except Exception as e:  # pylint: disable=broad-except
          got = ('other', type(e).__name__)
        if got[0] != r['verdict']:
          bad.append(('frame with corruption %s is %s, table says %s' % (
              r['c'], {'deliver': 'delivered', 'reject': 'rejected',
                       'other': 'answered with a non-ADB error'}[got[0]], r['verdict']), det))
        elif got[0] == 'deliver' and got[1] != (r['cmd'], a0, a1, data):
          bad.append(('round trip changes the message', det))
        if a0 == 0:
          # the same frame arriving during the handshake (read_until), a valid CNXN frame behind it: a corrupt
          # frame is rejected there as well, a valid frame of another command is passed over
          t3 = usbfake.ChunkTransport()
          ad3 = am.AdbTransportAdapter(t3)
          chunks = corrupt(r['c'], r['cmd'], a0, a1, data, variant=n + 5)
          if len(chunks[0]) == 24 and struct.unpack('<6I', chunks[0])[3] == 0:
            chunks = chunks[:1]           # a header announcing no payload is followed by the next frame
          t3.rx = chunks + [header_of('CNXN', 7, 8, 'ok'), 'ok']
          try:
            m = ad3.read_until(['CNXN', 'AUTH'], to.PolledTimeout.from_millis(1000))
            got3 = ('deliver', (m.command, m.arg0, m.arg1, m.data))
          except (ue.AdbDataIntegrityError, ue.AdbProtocolError) as e:
            got3 = ('reject', type(e).__name__)
          except Exception as e:  # pylint: disable=broad-except
            got3 = ('other', type(e).__name__)
          want3 = (r['cmd'], a0, a1, data) if r['cmd'] in ('CNXN', 'AUTH') else ('CNXN', 7, 8, 'ok')
          if got3[0] != r['verdict']:
            bad.append(('frame with corruption %s arriving during the handshake is %s, table says %s' % (
                r['c'], {'deliver': 'passed over / delivered', 'reject': 'rejected',
                         'other': 'answered with a non-ADB error'}[got3[0]], r['verdict']), det))
          elif got3[0] == 'deliver' and got3[1] != want3:
            bad.append(('read_until returns another message than the first expected one', det))
  return n, bad


def expired_between(seed):
  """once a header has been sent its payload is sent even if the timeout expired in between"""
  from vf import usbfake
  am, to = usbfake.adb_message, usbfake.timeouts
  bad = []
  for data in ('', 'ab', '\x00' * 100):
    timeout = to.PolledTimeout.from_millis(50)

    def on_write(t, chunk, ms, timeout=timeout):
      if not t.tx:
        timeout.expire()
    t = usbfake.ChunkTransport(on_write=on_write)
    ad = am.AdbTransportAdapter(t)
    try:
      ad.write_message(am.AdbMessage('WRTE', 1, 2, data), timeout)
    except Exception as e:  # pylint: disable=broad-except
      bad.append(('write_message raises %s when the timeout expires after the header' % type(e).__name__, {}))
      continue
    if len(t.tx) != 2 or t.tx[1] != data:
      bad.append(('payload not sent after the header when the timeout expired in between', dict(tx=len(t.tx))))
  # the deadline falling anywhere around the header / payload boundary: a stepping clock (4 ms per observation)
  # and a transport that, like the real ones, refuses a negative timeout; deadlines 1..60 ms
  class Clock:
    def __init__(self):
      self.now = 1000.0

    def time(self):
      self.now += 0.004
      return self.now

    def sleep(self, s_):
      self.now += max(s_, 0)
  real_time = to.time
  try:
    for side in ('write', 'read'):
      for deadline in range(1, 61):
        to.time = Clock()
        neg = []

        def on_io(t_, x, ms):
          if ms is not None and ms < 0:
            neg.append(ms)
            raise ValueError('negative timeout handed to the transport')
        t = usbfake.ChunkTransport(rx=usbfake.frame('WRTE', 1, 2, 'xyz'), on_write=on_io, on_read=on_io)
        ad = am.AdbTransportAdapter(t)
        timeout = to.PolledTimeout.from_millis(deadline)
        err = None
        try:
          if side == 'write':
            ad.write_message(am.AdbMessage('WRTE', 1, 2, 'abc'), timeout)
          else:
            ad.read_message(timeout)
        except Exception as e:  # pylint: disable=broad-except
          err = type(e).__name__
        det = dict(side=side, deadline_ms=deadline, error=err)
        if neg:
          bad.append(('a negative timeout is handed to the transport when the deadline falls between header and payload', det))
        elif side == 'write' and len(t.tx) == 1:
          bad.append(('payload not sent after the header when the timeout expired in between', det))
        elif side == 'read' and len(t.rx) == 1:
          bad.append(('a header was consumed and its payload left in the stream when the timeout expired in between', det))
  finally:
    to.time = real_time
  return bad


def run_writers(policy):
  from vf import sched, usbfake
  am, to = usbfake.adb_message, usbfake.timeouts
  box = {}

  def main():
    t = usbfake.ChunkTransport(on_write=lambda *a: sched.point('transport.write'))
    ad = am.AdbTransportAdapter(t)
    msgs = [am.AdbMessage('WRTE', 1, 1, 'aaa'), am.AdbMessage('WRTE', 2, 2, 'bb')]
    ths = [threading.Thread(target=ad.write_message, args=(m, to.PolledTimeout.from_millis(1000)),
                            name='w%d' % i) for i, m in enumerate(msgs)]
    for th in ths:
      th.start()
    for th in ths:
      th.join()
    box['tx'] = list(t.tx)
    box['frames'] = [[m.header, m.data] for m in msgs]
  s = sched.Sched(policy=policy, max_steps=5000)
  s.run(main)
  return s, box


def run_writers_expired(policy):
  """writer w0's timeout expires while its header is being written; w1 writes concurrently"""
  from vf import sched, usbfake
  am, to = usbfake.adb_message, usbfake.timeouts
  box = {}

  def main():
    t0 = to.PolledTimeout.from_millis(1000)
    msgs = [am.AdbMessage('WRTE', 1, 1, 'aaa'), am.AdbMessage('WRTE', 2, 2, 'bb')]

    def on_write(t, chunk, ms):
      if chunk == msgs[0].header:
        t0.expire()
      sched.point('transport.write')
    t = usbfake.ChunkTransport(on_write=on_write)
    ad = am.AdbTransportAdapter(t)
    ths = [threading.Thread(target=ad.write_message, args=(msgs[0], t0), name='w0'),
           threading.Thread(target=ad.write_message, args=(msgs[1], to.PolledTimeout.from_millis(1000)), name='w1')]
    for th in ths:
      th.start()
    for th in ths:
      th.join()
    box['tx'] = list(t.tx)
    box['frames'] = [[m.header, m.data] for m in msgs]
  s = sched.Sched(policy=policy, max_steps=5000)
  s.run(main)
  return s, box


def run_readers(policy):
  from vf import sched, usbfake
  am, to = usbfake.adb_message, usbfake.timeouts
  box = {}

  def main():
    rx = usbfake.frame('WRTE', 1, 1, 'aaa') + usbfake.frame('WRTE', 2, 2, 'bb')
    t = usbfake.ChunkTransport(rx=rx, on_read=lambda *a: sched.point('transport.read'))
    ad = am.AdbTransportAdapter(t)
    res = {}

    def rd(i):
      try:
        m = ad.read_message(to.PolledTimeout.from_millis(1000))
        res[i] = (m.command, m.arg0, m.arg1, m.data)
      except Exception as e:  # pylint: disable=broad-except
        res[i] = ('error', type(e).__name__)
    ths = [threading.Thread(target=rd, args=(i,), name='r%d' % i) for i in range(2)]
    for th in ths:
      th.start()
    for th in ths:
      th.join()
    box['res'] = res
  s = sched.Sched(policy=policy, max_steps=5000)
  s.run(main)
  return s, box


def part2(bound):
  from vf import explore
  bad = []
  n = 0
  for picks, decisions, box, failure in explore.explore(run_writers, bound, max_runs=20000):
    n += 1
    if failure is not None:
      bad.append(('two writers: run does not terminate (%s)' % type(failure).__name__, dict(schedule=picks)))
      continue
    f = box['frames']
    if box['tx'] not in (f[0] + f[1], f[1] + f[0]):
      bad.append(('two writers: header and payload chunks interleave on the wire', dict(schedule=picks)))
  for picks, decisions, box, failure in explore.explore(run_writers_expired, bound, max_runs=20000):
    n += 1
    if failure is not None:
      bad.append(('two writers (one timed out after its header): run does not terminate (%s)' % type(failure).__name__,
                  dict(schedule=picks)))
      continue
    f = box['frames']
    if box['tx'] not in (f[0] + f[1], f[1] + f[0]):
      bad.append(('two writers: the payload sent after an expired timeout interleaves with another writer\'s frame',
                  dict(schedule=picks)))
  for picks, decisions, box, failure in explore.explore(run_readers, bound, max_runs=20000):
    n += 1
    if failure is not None:
      bad.append(('two readers: run does not terminate (%s)' % type(failure).__name__, dict(schedule=picks)))
      continue
    got = sorted(box['res'].values())
    if got != sorted([('WRTE', 1, 1, 'aaa'), ('WRTE', 2, 2, 'bb')]):
      bad.append(('two readers: a reader did not get a whole frame', dict(schedule=picks, got=got)))
  return n, bad


def main(chk):
  res = tlc.must_pass(tlc.run('AdbFraming', 'AdbFraming_mc.cfg', coverage=True, workers=1), 'AdbFraming design check')
  chk.add_tlc('design (locks)', res, action_counts={k: v[1] for k, v in res.coverage().items()})
  neg = tlc.run('AdbFraming', 'AdbFraming_nolock.cfg', workers=1)
  if 'NoInterleaveOnWire' not in neg.invariant_violated:
    raise tlc.TLCError('sensitivity: the lock-free model does not violate NoInterleaveOnWire')
  chk.cov['model_sensitivity'] = 'the same model with UseLocks=FALSE violates NoInterleaveOnWire (TLC counterexample)'
  rows = res.prints('TABLE')[0][0]
  sys.argv = sys.argv[:1]
  n, bad = part1(rows, chk.seed, chk.tier != 'quick')
  chk.traces += n
  chk.nontrivial += n
  for sig, det in bad:
    chk.violation(sig, det)
  chk.sample(dict(part='table', rows=rows[:2]))
  for sig, det in expired_between(chk.seed):
    chk.violation(sig, det)
  n2, bad2 = part2(2 if chk.tier == 'quick' else 3)
  chk.traces += n2
  chk.nontrivial += n2
  for sig, det in bad2:
    chk.violation(sig, det)
  chk.sample(dict(part='schedules', explored=n2))
  chk.log('table cases %d, schedules %d' % (n, n2))
  chk.cov['rule'] = ('table: 7 commands x 11 corruptions x payload lengths 0..3 x 3 argument vectors x payload '
                     'concretisations over {\\x00,\\xff,\\n} (thorough: 4096-byte payloads); schedules: all interleavings '
                     'of 2 writers / 2 readers with <= 2 (quick) / 3 preemptions; every case distinct and non-trivial')
  chk.assumptions += ['payloads are str objects with code points < 256 (the code is Python-2 era: ord() per character)',
                      '"for all payloads up to maxdata" is decided on the concretisation set only',
                      'preemption only at synchronisation operations and transport calls']
  return chk.finish(explanation='AdbFraming.tla checked by TLC (and shown sensitive to removing the locks); corruption '
                    'table replayed on the real adapter; real adapter explored under the deterministic scheduler',
                    exhaustive=True)


def replay(path):
  print('re-run ./check C13 --tier quick (cases are table rows / schedules recorded in the file)')
  return 2
