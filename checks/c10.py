"""C10 - the serialized (base-type / JSON) view always equals the in-memory
record.  Specs: Measurement.tla (action Read: live view and record view of
measurement histories), RecordView.tla (record lists, value-kind table).

A. measurement histories with reads of the live view (TLC-emitted, replayed in
   real phases): live view / record rendering vs in-memory state;
B. record shapes from Executor.tla families: every record list of the
   TestRecord must be represented in as_base_types() with one entry per
   in-memory record; JSON written by OutputToJSON is strict and decodes to the
   base-type view;
C. the value-kind table of RecordView.tla (TLC-emitted rows) replayed with
   concrete values; attachments round-trip through base64."""
import base64
import enum
import io
import json
import math
import multiprocessing as mp
import sys

from checks import c06, execlib, measlib
from vf import common, tlaval, tlc

OWNED_A = {'live_view': 'live view', 'record_view': 'record view'}
LISTS = ['phases', 'subtests', 'branches', 'checkpoints', 'diagnoses', 'log_records']


class Color(enum.Enum):
  RED = 1


def _strict_loads(text):
  def bad(tok):
    raise ValueError('non-standard JSON token %s' % tok)
  return json.loads(text, parse_constant=bad)


def _norm(x):
  """tuples as lists; NaN compares equal to NaN"""
  if isinstance(x, (list, tuple)):
    return [_norm(v) for v in x]
  if isinstance(x, dict):
    return {str(k): _norm(v) for k, v in x.items()}
  if isinstance(x, float) and math.isnan(x):
    return 'NaN-float'
  return x


def record_hook(rec):
  """evaluates C10 on one finished record; returns list of problems"""
  from openhtf.output.callbacks import json_factory
  bad = []
  bt = rec.as_base_types()
  for l in LISTS:
    mem = getattr(rec, l)
    if l not in bt:
      bad.append(('record_lists', 'record list %s is not represented in the base-type view' % l))
      continue
    if len(bt[l]) != len(mem):
      bad.append(('record_lists', 'base-type view has %d %s, in-memory record has %d'
                  % (len(bt[l]), l, len(mem))))
      continue
    for v, m in zip(bt[l], mem):
      if l in ('phases', 'subtests', 'branches', 'checkpoints') and v.get('name') != m.name:
        bad.append(('record_lists', 'entry of %s rendered with another name' % l))
      if l in ('phases', 'subtests') and v.get('outcome') != (m.outcome.name if m.outcome else None):
        bad.append(('record_lists', 'entry of %s rendered with outcome %s, in memory %s'
                    % (l, v.get('outcome'), m.outcome)))
      if l == 'branches' and v.get('branch_taken') != m.branch_taken:
        bad.append(('record_lists', 'branch rendered with another branch_taken'))
      if l == 'diagnoses' and v.get('result') != m.result.value:
        bad.append(('record_lists', 'diagnosis rendered with another result'))
      if l == 'log_records' and v.get('message') != m.message:
        bad.append(('record_lists', 'log record rendered with another message'))
    if l == 'phases':
      for v, m in zip(bt[l], mem):
        if sorted(v.get('measurements', {})) != sorted(m.measurements):
          bad.append(('record_lists', 'phase rendered with other measurement names'))
        if v.get('diagnosis_results') != [r.value for r in m.diagnosis_results] or \
           v.get('failure_diagnosis_results') != [r.value for r in m.failure_diagnosis_results]:
          bad.append(('record_lists', 'phase rendered with other diagnosis results'))
        if sorted(v.get('attachments', {})) != sorted(m.attachments):
          bad.append(('record_lists', 'phase rendered with other attachment names'))
  if bt.get('outcome') != (rec.outcome.name if rec.outcome else None) or bt.get('dut_id') != rec.dut_id:
    bad.append(('record_lists', 'outcome / dut_id rendered differently'))
  # JSON: strict, decodes to the base-type view
  for allow in (False, True):
    buf = io.StringIO()
    cb = json_factory.OutputToJSON(buf, inline_attachments=True, allow_nan=allow)
    try:
      for chunk in cb.serialize_test_record(rec):
        buf.write(chunk)
    except Exception as e:  # pylint: disable=broad-except
      bad.append(('json', 'OutputToJSON(allow_nan=%s) raised %s' % (allow, type(e).__name__)))
      continue
    text = buf.getvalue()
    try:
      dec = _strict_loads(text) if not allow else json.loads(text)
    except ValueError as e:
      bad.append(('json', 'JSON output is not strict JSON: %s' % str(e)[:60]))
      continue
    for l in LISTS:
      if l in bt and l != 'phases' and _norm(dec.get(l)) != _norm(bt[l]):
        bad.append(('json', 'decoded JSON differs from the base-type view in %s' % l))
    for dp, vp, mp_ in zip(dec.get('phases', []), bt.get('phases', []), rec.phases):
      for name, meas in vp.get('measurements', {}).items():
        if _norm(dp['measurements'][name]) != _norm(meas):
          bad.append(('json', 'decoded JSON differs from the base-type view in a measurement'))
      for name, att in mp_.attachments.items():
        got = dp['attachments'].get(name, {})
        if base64.standard_b64decode(got.get('data', '')) != att.data:
          bad.append(('json', 'attachment does not round-trip through base64'))
  # the view must still be a from-scratch rendering after it was serialized
  bt2 = rec.as_base_types()
  for v, m in zip(bt2.get('phases', []), rec.phases):
    for name in m.attachments:
      if not isinstance(v.get('attachments', {}).get(name), dict):
        bad.append(('record_lists', 'after JSON output the base-type view holds a raw Attachment object'))
  return bad


def fams_b(tier):
  f = [('structure3', execlib.fam_structure(3, 'PQUG', 'CFXE')),
       ('branches2', execlib.fam_branches(2, range(8)))]
  if tier != 'quick':
    f.append(('branches3', execlib.fam_branches(3, range(4))))
  return f


def replay_b(args):
  sys.argv = sys.argv[:1]
  from vf import build
  name, idx, plist, text, extra = args
  hists = tlaval.parse_many(text, 'HIST')
  out = dict(n=0, bad=[], nontrivial=0, sample=None, cats={})
  for (o,) in hists:
    prog = plist[o['p'] - 1]
    def body_hook(ctx, pname, api, b):
      api.logger.info('log from %s', pname)
      if pname.endswith('1'):
        api.attach('att_%s' % pname, bytes(range(256)) if b == 'C' else b'ab')
    g = build.run_program(prog, o['calls'], hooks=dict(record=record_hook, body=body_hook))
    out['n'] += 1
    if g.get('recs'):
      out['nontrivial'] += 1
    probs = g.get('record_hook', [('harness', 'no record produced')])
    if probs and len(out['bad']) < 6:
      out['bad'].append(dict(family=name, program=__import__('vf.progs', fromlist=['x']).tla(prog)[:800],
                             calls=[(c['n'], c['b']) for c in o['calls']], mismatches=probs))
    if out['sample'] is None and len(o['calls']) >= 2:
      out['sample'] = dict(part='B', family=name, calls=[(c['n'], c['b']) for c in o['calls']],
                           lists={l: len(o.get({'phases': 'recs', 'subtests': 'subs', 'branches': 'brs',
                                                 'checkpoints': 'cks', 'diagnoses': 'diags'}.get(l, l), []))
                                  for l in LISTS if l != 'log_records'})
  return out


SCALARS = {'none': None, 'bool': True, 'int': 7, 'bigint': 10 ** 30, 'float': 1.5, 'negzero': -0.0,
           'nan': float('nan'), 'inf': float('inf'), 'ninf': float('-inf'), 'str': 'x\n"y', 'enum': Color.RED}


def part_c(rows):
  """value-kind table rows -> real measurements -> base types -> JSON"""
  sys.argv = sys.argv[:1]
  import openhtf as htf
  from openhtf.output.callbacks import json_factory
  from openhtf.util import data
  from vf import build
  bad = []
  n = 0
  by = {}
  for r in rows:
    by.setdefault(r['allow'], []).append(r)
  for allow, rs in by.items():
    def body(test):
      for i, r in enumerate(rs):
        v = SCALARS[r['k']]
        c = r['c']
        if c == 'scalar':
          test.measurements['m%d' % i] = v
        elif c == 'list':
          test.measurements['m%d' % i] = [v, [v]]
        elif c == 'tuple':
          test.measurements['m%d' % i] = (v, (v,))
        elif c == 'dict':
          test.measurements['m%d' % i] = {'k': v, 'n': {'k': v}}
        elif c == 'dimvalue':
          test.measurements['m%d' % i][1] = v
          test.measurements['m%d' % i][2] = v
      for j, payload in enumerate([b'', b'a', b'ab', b'abc', bytes(range(256)), 'text ü']):
        test.attach('a%d' % j, payload)
    ms = []
    for i, r in enumerate(rs):
      m = htf.Measurement('m%d' % i)
      if r['c'] == 'dimvalue':
        m = m.with_dimensions('x')
      ms.append(m)
    ph = htf.measures(*ms)(htf.PhaseOptions(name='kinds')(body))
    test = htf.Test(ph)
    out = []
    test.add_output_callbacks(out.append)
    test.execute()
    rec = out[0]
    buf = io.StringIO()
    cb = json_factory.OutputToJSON(buf, allow_nan=allow)
    try:
      for chunk in cb.serialize_test_record(rec):
        buf.write(chunk)
      text = buf.getvalue()
    except Exception as e:  # pylint: disable=broad-except
      bad.append(('json: OutputToJSON(allow_nan=%s) raised %s' % (allow, type(e).__name__), dict(allow=allow)))
      continue
    strict_ok = True
    try:
      dec = _strict_loads(text)
    except ValueError:
      strict_ok = False
      dec = json.loads(text)
    may_be_loose = any('nonstandard' in r['tok'] for r in rs)
    if not strict_ok and not may_be_loose:
      bad.append(('json: output is not strict JSON with allow_nan=%s' % allow, dict(allow=allow)))
    bt = data.convert_to_base_types(rec, json_safe=not allow)
    pm = rec.phases[0].measurements
    dm = dec['phases'][0]['measurements']
    for i, r in enumerate(rs):
      n += 1
      name = 'm%d' % i
      v = SCALARS[r['k']]
      mv = dm[name].get('measured_value')
      leaf = {'scalar': lambda x: x, 'list': lambda x: x[1][0], 'tuple': lambda x: x[1][0],
              'dict': lambda x: x['n']['k'], 'dimvalue': lambda x: x[1][1]}[r['c']]
      try:
        got = leaf(mv)
      except Exception:  # pylint: disable=broad-except
        bad.append(('json: value of kind %s in %s has the wrong shape in JSON' % (r['k'], r['c']), r))
        continue
      kind = ('null' if got is None else 'boolean' if isinstance(got, bool) else
              'number' if isinstance(got, (int, float)) and not (isinstance(got, float) and
                                                                (math.isnan(got) or math.isinf(got)))
              else 'nonstandard' if isinstance(got, float) else 'string' if isinstance(got, str) else 'other')
      if kind not in r['tok']:
        bad.append(('json: value of kind %s in %s becomes JSON %s, table says %s'
                    % (r['k'], r['c'], kind, sorted(r['tok'])), r))
      # decodes to the same structure as the base-type view
      btv = bt['phases'][0]['measurements'][name].get('measured_value')
      if _norm(mv) != _norm(btv):
        bad.append(('json: decoded value of kind %s in %s differs from the base-type view' % (r['k'], r['c']), r))
      # value fidelity for kinds JSON can carry
      if r['k'] in ('bool', 'int', 'bigint', 'float', 'str', 'none') and got != v:
        bad.append(('json: value of kind %s in %s decodes to a different value' % (r['k'], r['c']), r))
      if r['k'] == 'negzero' and math.copysign(1, got) != -1:
        bad.append(('json: -0.0 loses its sign', r))
    for j, payload in enumerate([b'', b'a', b'ab', b'abc', bytes(range(256)), 'text ü'.encode()]):
      got = base64.standard_b64decode(dec['phases'][0]['attachments']['a%d' % j]['data'])
      if got != payload:
        bad.append(('json: attachment payload %d does not round-trip through base64' % j, dict(payload=j)))
  return n, bad


def part_d(text):
  """histories of RecordView.tla (adds to the six lists, header-field changes, reads) on a real TestRecord: what
  every read returns is compared with the rendering of a record rebuilt from scratch from the same objects"""
  sys.argv = sys.argv[:1]
  import openhtf as htf
  from openhtf.core import diagnoses_lib, phase_branches, phase_executor, test_record
  from openhtf.util import logs
  from vf import build
  hists = tlaval.parse_many(text, 'HIST')
  bad = []
  n = 0
  ph = htf.PhaseOptions(name='ph')(lambda test: None)
  cond = phase_branches.DiagnosisCondition.on_all(build.R.a)
  DUT = {0: None, 1: 'FIXTURE-SLOT', 2: 'SN-0042'}
  OC = {0: None, 1: test_record.Outcome.PASS, 2: test_record.Outcome.FAIL}
  END = {0: None, 1: 1000, 2: 2000}
  MARG = {0: None, 1: True, 2: False}

  def item(l, k):
    if l == 'phases':
      r = test_record.PhaseRecord.from_descriptor(ph)
      r.start_time_millis, r.end_time_millis = k, k + 1
      return r
    if l == 'subtests':
      return test_record.SubtestRecord(name='sub%d' % k, start_time_millis=k, end_time_millis=k + 1,
                                       outcome=test_record.SubtestOutcome.PASS)
    if l == 'branches':
      return test_record.BranchRecord(name='br%d' % k, diag_condition=cond, branch_taken=bool(k % 2), evaluated_millis=k)
    if l == 'checkpoints':
      return test_record.CheckpointRecord(name='ck%d' % k, action=htf.PhaseResult.STOP, conditional=cond, subtest_name=None,
                                          result=phase_executor.PhaseExecutionOutcome(htf.PhaseResult.CONTINUE),
                                          evaluated_millis=k)
    if l == 'diagnoses':
      return diagnoses_lib.Diagnosis(build.R.a, 'diag %d' % k)
    return logs.LogRecord(level=20, logger_name='openhtf.x', source='f.py', lineno=k, timestamp_millis=k, message='msg %d' % k)
  ADD = dict(phases='add_phase_record', subtests='add_subtest_record', branches='add_branch_record',
             checkpoints='add_checkpoint_record', diagnoses='add_diagnosis', log_records='add_log_record')

  def fresh():
    return test_record.TestRecord(dut_id=None, station_id='st', code_info=test_record.CodeInfo.uncaptured(),
                                  metadata={'test_name': 't', 'config': {'k': 1}})

  def apply_hdr(rec, f, v, old):
    if f == 'dut_id':
      rec.dut_id = DUT[v]
    elif f == 'outcome':
      rec.outcome = OC[v]
    elif f == 'end_time_millis':
      rec.end_time_millis = END[v]
    elif f == 'marginal':
      rec.marginal = MARG[v]
    elif f == 'details':
      rec.add_outcome_details('code%d' % v, 'description %d' % v)
    else:
      rec.metadata['extra%d' % v] = [v, {'deep': (v, v)}]
  for (h,) in hists:
    n += 1
    rec = fresh()
    log = []         # what was applied, to rebuild from scratch
    k = 0
    for op in h:
      if op[0] == 'add':
        k += 1
        it = item(op[1], k)
        getattr(rec, ADD[op[1]])(it)
        log.append(('add', op[1], it))
      elif op[0] == 'set':
        apply_hdr(rec, op[1], op[2], None)
        log.append(('set', op[1], op[2]))
      else:
        got = _norm(rec.as_base_types())
        ref = fresh()
        for e in log:
          if e[0] == 'add':
            getattr(ref, ADD[e[1]])(e[2])
          else:
            apply_hdr(ref, e[1], e[2], None)
        want = _norm(ref.as_base_types())
        if got != want:
          diff = sorted(f for f in set(got) | set(want) if got.get(f) != want.get(f))
          if len(bad) < 6:
            bad.append(('record view: a read of the record differs from the from-scratch rendering in %s' % ', '.join(diff),
                        dict(history=[list(map(str, o[:3])) if o[0] != 'read' else ['read'] for o in h])))
        # the model's header
        hm = op[2]
        if got.get('dut_id') != DUT[hm['dut_id']] or got.get('end_time_millis') != END[hm['end_time_millis']] or \
            got.get('marginal') != MARG[hm['marginal']] or len(got.get('outcome_details', [])) != hm['details']:
          if len(bad) < 6:
            bad.append(('record view: header fields of a read differ from the model', dict(history=str(h)[:400])))
        for l in LISTS:
          if l in op[1] and len(got.get(l, [])) != len(op[1][l]):
            if len(bad) < 6:
              bad.append(('record view: list %s of a read has another length than the model says' % l, dict(history=str(h)[:400])))
  return n, bad


def main(chk):
  # design checks
  res = tlc.must_pass(tlc.run('RecordView', 'RecordView_mc.cfg', coverage=True), 'RecordView design check')
  chk.add_tlc('RecordView design', res)
  rows = res.prints('TABLE')[0][0]
  cfgs = [c for c in measlib.configs(chk.tier)]
  c06.design(chk, cfgs, 5)
  # A
  c06.emit_and_replay(chk, cfgs, 3 if chk.tier == 'quick' else 4, 1, OWNED_A)
  # longer histories of the live view alone: reads interleaved with (overriding) per-coordinate sets
  deep = [measlib.cfg('', 'none', 'A', dt, {'SetD', 'Read'}) for dt in ('none', 'inc')]
  c06.emit_and_replay(chk, deep, 4 if chk.tier == 'quick' else 5, 1, OWNED_A)
  # B
  with mp.Pool(14, maxtasksperchild=40) as pool:
    for name, plist in fams_b(chk.tier):
      for r in execlib.emit(chk, name, plist, pool, replay_b, None):
        chk.traces += r['n']
        chk.nontrivial += r['nontrivial']
        if r['sample']:
          chk.sample(r['sample'])
        for b in r['bad']:
          for cat, msg in b['mismatches']:
            chk.violation('%s: %s' % (cat, msg), b)
    # D
    rv_cfg = open('specs/RecordView_mc.cfg').read()
    if chk.tier != 'quick':
      rv_cfg = rv_cfg.replace('MaxOps = 4', 'MaxOps = 5')
      res = tlc.must_pass(tlc.run('RecordView', rv_cfg, workers=8, heap='6g'), 'RecordView histories')
      chk.add_tlc('RecordView histories (thorough bound)', res)
    nd = 0
    for nn, bd in pool.map(part_d, tlaval.split_prints(res.out, 'HIST', 28)):
      nd += nn
      for sig, det in bd:
        chk.violation(sig, det)
    chk.traces += nd
    chk.nontrivial += nd
    chk.log('record histories (adds, header changes, reads): %d replayed' % nd)
    # C
    n, bad = pool.apply(part_c, (rows,))
  chk.traces += n
  chk.sample(dict(part='C', rows=rows[:3]))
  for sig, det in bad:
    chk.violation(sig, det)
  chk.log('value-kind table: %d rows replayed' % n)
  chk.cov['rule'] = ('A: measurement histories with reads (TLC-emitted); B: record shapes of C02-style programs; '
                     'C: value-kind x container x allow_nan table rows; non-trivial = >= 2 statements / >= 1 record')
  chk.assumptions += ['byte-exact float formatting and base64 are decided on the finite concretisation set only',
                      'record lists are compared by length and identifying fields (name, outcome, result, message), '
                      'not by every rendered field']
  return chk.finish(explanation='live/record views vs in-memory state after TLC-emitted histories; every record '
                    'list represented; JSON strict and decoding to the base-type view; kind table replayed',
                    exhaustive=True)


def replay(path):
  with open(path) as fh:
    sc = json.load(fh)['scenario']
  sys.argv = sys.argv[:1]
  if 'hist' in sc:
    bad = [b for b in measlib.replay_one(sc) if b[0] in OWNED_A]
    for cat, msg in bad:
      print('VIOLATION property=C10 replay=%s\n  what: %s' % (path, msg))
      return 1
    print('replay: history conforms')
    return 0
  print('replay of record-shape / table scenarios: re-run ./check C10 --tier quick')
  return 2
