"""Shared driver for the properties decided on Executor.tla (C01 C02 C03 C05
C08 C09): program families, sharded TLC emission (design invariants checked
in the same runs), replay on the real executor, categorised comparison."""
import concurrent.futures as cf
import itertools
import multiprocessing as mp
import os
import random
import time

from vf import progs, tlaval, tlc
from vf.progs import (beh, branch, ckpt, forests, group, instantiate, opts, phase,
                      program, seq, subtest)

INVARIANTS = ['NoFalsePass', 'Converse', 'ErrorIsTerminal', 'TeardownOnce', 'NotEnteredNoRun',
              'PlugTdAfterNodes', 'AtMostLimit', 'OneRecordPerInvocation', 'AtMostOneInstance',
              'TornDownOnce']
PROPERTIES = ['RecordsOnlyGrow']

CFG = ('CONSTANT Programs <- MCPrograms\nSPECIFICATION Spec\nINVARIANT Emit\n' +
       ''.join('INVARIANT %s\n' % i for i in INVARIANTS) +
       ''.join('PROPERTY %s\n' % p for p in PROPERTIES) + 'CHECK_DEADLOCK FALSE\n')

SHARD = 48


def shard_size(n):
  """at most SHARD programs per TLC run, but at least ~24 shards when possible"""
  return max(1, min(SHARD, (n + 23) // 24))


# ----------------------------------------------------------------------
# families

BRANCH_VARIANTS = [('ALL', ('a',)), ('ANY', ('a', 'B')), ('NOT_ANY', ('a',)),
                   ('NOT_ALL', ('a', 'B')), ('ANY', ('B',)), ('ALL', ('a', 'B'))]
CKPT_VARIANTS = [('LAST', 'STOP'), ('ALL', 'FAIL_SUBTEST'), ('SUBTEST', 'FAIL_SUBTEST'),
                 ('DIAG', 'STOP'), ('LAST', 'FAIL_SUBTEST'), ('ALL', 'STOP'),
                 ('SUBTEST', 'STOP'), ('DIAG', 'FAIL_SUBTEST')]


class Maker:
  """Decorates leaves of a shape.  `v` selects branch / checkpoint variants."""

  def __init__(self, behs, v=0, phase_kw=None):
    self.behs = behs
    self.v = v
    self.nb = 0
    self.nk = 0
    self.phase_kw = phase_kw or {}

  def phase(self, name):
    return phase(name, self.behs, **self.phase_kw)

  def ckpt(self, name):
    kind, action = CKPT_VARIANTS[(self.v + self.nk) % len(CKPT_VARIANTS)]
    self.nk += 1
    return ckpt(name, kind, action, on='ANY', rs=('B',))

  def branch(self, name, ch):
    on, rs = BRANCH_VARIANTS[(self.v + 2 * self.nb) % len(BRANCH_VARIANTS)]
    self.nb += 1
    return branch(name, on, rs, ch)


def fam_structure(maxn, kinds='PQUG', bs='CFXE', phase_kw=None, minn=0):
  """every tree with <= maxn nodes over the given kinds"""
  out = []
  for n in range(minn, maxn + 1):
    for f in forests(n, frozenset(kinds)):
      out.append(program(instantiate(f, Maker(beh(bs), phase_kw=phase_kw))))
  return out


def fam_monitored():
  """every phase body wrapped with monitors.monitors(): the wrapper must hand on what the body did
  (return value, exception) - monitoring is invisible to the model"""
  out = fam_structure(2, 'PQUG', 'CFXESGIJ', phase_kw=dict(mon=True), minn=1)
  for limit in (2, 3):
    out.append(program([phase('p', beh('RCE'), o=opts(limit=limit), mon=True), phase('q', beh('C'))]))
  for fexc in (False, True):
    out.append(program([phase('p', beh('EG'), mon=True), phase('q', beh('C'), mon=True)], fexc=fexc))
  return out


def fam_branches(maxn, variants, kinds='PBKUG'):
  """a diagnosing first phase, then every tree <= maxn nodes with branches and
  checkpoints whose conditions look at its diagnosis results"""
  out = []
  p0 = lambda: phase('p0', beh('CF', ds=[('0',), ('a',), ('B',)]), ndiag=1)
  for n in range(1, maxn + 1):
    for f in forests(n, frozenset(kinds)):
      flat = str(f)
      if 'B' not in flat and 'K' not in flat:
        continue
      for v in variants:
        out.append(program([p0()] + instantiate(f, Maker(beh('CF'), v))))
  return out


def _positions(p, q):
  """the phase under test in three positions, followed by a sentinel"""
  return [('top', [p, q]),
          ('subtest', [subtest('s1', [p, q]), phase('z', beh('C'))]),
          ('teardown', [group('g1', [], [phase('m', beh('C'))], [p, q])])]


def fam_options(tier):
  """C05: one phase with an options vector, per-invocation behaviour alphabet,
  three positions, followed by a sentinel phase"""
  out = []
  quick = tier == 'quick'
  for runif, limit, force, romf, somf in itertools.product(
      ['none', 'true', 'false', 'raise'], [0, 1, 2], [False, True], [False, True], [False, True]):
    if runif in ('false', 'raise') and (limit or somf):
      continue
    big = force or romf
    if quick and big and limit == 0:
      continue
    bs = 'CFRE' if big else 'CFXKRSEIJ'
    ms = ('p', 'f') if big else ('p', 'f', 'u')
    o = opts(runif=runif, limit=limit, force=force, romf=romf, somf=somf)
    for pos, _ in _positions(None, None):
      p = phase('p', beh(bs, ms), o=o, mk='scalar')
      q = phase('q', beh('C'))
      nodes = dict(_positions(p, q))[pos]
      for sof in ([False, True] if not big else [False]):
        out.append(program(nodes, sof=sof))
  return out


def fam_table(tier):
  """C05: the single-invocation outcome table: behaviour x measurement x
  diagnoser codes x stop_on_measurement_fail x position x settings"""
  out = []
  bs = 'CFXKRSEGIJ'
  ds = [('0',), ('a',), ('B',), ('!',)]
  for somf in (False, True):
    for pos in ('top', 'subtest', 'teardown'):
      for sof, unset in itertools.product((False, True), repeat=2):
        p = phase('p', beh(bs, ('p', 'm', 'f', 'u'), ds), o=opts(somf=somf, limit=1), mk='scalar',
                  ndiag=1)
        q = phase('q', beh('C'))
        out.append(program(dict(_positions(p, q))[pos], sof=sof, unset=unset))
  # dimensioned measurement whose validator raises at phase end; two diagnosers
  for pos in ('top', 'subtest', 'teardown'):
    for unset in (True, False):     # unset=False: a dimensioned measurement left UNSET fails its phase
      p = phase('p', beh('CFSEK', ('v', 'u')), o=opts(limit=1), mk='dimraise')
      out.append(program(dict(_positions(p, phase('q', beh('C'))))[pos], unset=unset))
    p = phase('p', beh('CFE', ('n',), [(a, b) for a in '0aB!' for b in '0bD!']),
              o=opts(limit=1), ndiag=2)
    out.append(program(dict(_positions(p, phase('q', beh('C'))))[pos]))
  return out


def fam_ladder(tier):
  """C01: settings x small programs with mixed events; test diagnosers"""
  out = []
  shapes = [f for n in range(0, 3) for f in forests(n, frozenset('PU'))]
  for sof, unset, fexc in itertools.product((False, True), repeat=3):
    for f in shapes:
      out.append(program(instantiate(f, Maker(beh('CFSEGKJ', ('n',)))), sof=sof, unset=unset,
                         fexc=fexc))
    for f in shapes[:4]:
      out.append(program(instantiate(f, Maker(beh('CK', ('p', 'f', 'u')),
                                              phase_kw=dict(mk='scalar'))),
                         sof=sof, unset=unset, fexc=fexc))
    # run_if false first phase with stop_on_first_failure / repeat_on_measurement_fail
    for o in (opts(runif='false'), opts(runif='false', romf=True), opts(runif='false', force=True),
              opts(runif='raise')):
      out.append(program([phase('p1', beh('C'), o=o), phase('p2', beh('CF')),
                          phase('p3', beh('C'))], sof=sof, unset=unset, fexc=fexc))
      out.append(program([phase('p0', beh('CF')), phase('p1', beh('C'), o=o),
                          phase('p2', beh('C'))], sof=sof, unset=unset, fexc=fexc))
      out.append(program([subtest('s1', [phase('p1', beh('C'), o=o), phase('p2', beh('CX'))]),
                          phase('p3', beh('C'))], sof=sof, unset=unset, fexc=fexc))
    # retries: superseded invocations (see known finding C01/superseded-error)
    out.append(program([phase('p1', beh('CE'), o=opts(force=True, limit=2)), phase('p2', beh('C'))],
                       sof=sof, unset=unset, fexc=fexc))
    out.append(program([phase('p1', beh('CF', ('p', 'f')), o=opts(romf=True, limit=2), mk='scalar'),
                        phase('p2', beh('C'))], sof=sof, unset=unset, fexc=fexc))
    # test diagnosers and test_start
    out.append(program([phase('p1', beh('CFE'))], tdiag=[('0', 'a', 'B', '!'), ('0', 'D', '!')],
                       sof=sof, unset=unset, fexc=fexc))
    out.append(program([phase('p1', beh('CF')), phase('p2', beh('C'))],
                       start=phase('st', beh('CFSEGK')), sof=sof, unset=unset, fexc=fexc))
  return out


def fam_groups(maxn, bs='CSEXF', kinds='PGU', need_td=True):
  """C03: nestings of groups"""
  out = []
  for n in range(1, maxn + 1):
    for f in forests(n, frozenset(kinds)):
      if 'G' not in str(f):
        continue
      out.append(program(instantiate(f, Maker(beh(bs)))))
  return out


def fam_teardown_nesting():
  """C02/C03: every kind of node nested in the teardown of a group that sits in
  a subtest which fails in main (or earlier in teardown): teardown mode is
  inherited ("This also applies to all nested phase nodes")"""
  out = []
  P = lambda n, b='C': phase(n, beh(b))
  p0 = lambda: phase('p0', beh('C', ds=[('0',), ('a',)]), ndiag=1)
  for mainb in ('CX', 'CF', 'CE'):
    for v in range(4):
      on, rs = BRANCH_VARIANTS[v]
      kind, action = CKPT_VARIANTS[v]
      td = [branch('b1', on, rs, [P('tb')]), ckpt('k1', kind, action, rs=('a',)),
            seq([P('tq')]), subtest('s2', [P('ts', 'CX'), P('ts2')]),
            group('g2', [P('tgs')], [P('tgm', 'CE')], [P('tgt')]), P('tlast')]
      out.append(program([p0(), subtest('s1', [P('a', 'CX'), group('g1', [P('su')], [P('m', mainb)], td), P('b')]),
                          P('z')]))
      out.append(program([p0(), group('g1', [], [P('m', mainb)], [P('t0', 'CE')] + td), P('z')]))
  return out


def fam_checkpoint_context():
  """C02: a checkpoint inside a subtest, with every kind of node (incl. a nested
  subtest, whose phase records carry the inner subtest's name) between the
  phases it looks back at and itself; a second checkpoint after the subtest"""
  out = []
  P = lambda n, b='CF': phase(n, beh(b))
  p0 = lambda: phase('p0', beh('C', ds=[('0',), ('B',)]), ndiag=1)
  mids = [lambda: [],
          lambda: [P('m')],
          lambda: [subtest('s2', [P('n')])],
          lambda: [subtest('s2', [P('n', 'CX'), P('n2', 'C')])],
          lambda: [group('g1', [], [P('n')], [P('t', 'C')])],
          lambda: [seq([P('n')])],
          lambda: [subtest('s2', [P('n'), ckpt('k0', 'SUBTEST', 'FAIL_SUBTEST', rs=('B',))]), P('m2', 'C')]]
  for kind, action in CKPT_VARIANTS:
    for mid in mids:
      out.append(program([p0(), P('a'),
                          subtest('s1', [P('b')] + mid() + [ckpt('k1', kind, action, rs=('B',)), P('c', 'C')]),
                          ckpt('k2', kind, 'STOP', rs=('B',)), P('z', 'C')]))
  return out


def fam_plugs(tier):
  """C08: plugs x phases x faults"""
  out = []
  quick = tier == 'quick'
  plugsets = [(), ('x',), ('y',), ('x', 'y')]
  # x and z are two plug classes with the same module and class name
  for pa, pb, pst in itertools.product(plugsets, plugsets + [('z',), ('x', 'z')], [None, (), ('x',), ('z',)]):
    allp = set(pa) | set(pb) | set(pst or ())
    if not allp:
      continue
    for bad in [()] + [(c,) for c in sorted(allp)]:
      tdsets = [{}]
      for c in sorted(allp):
        tdsets.append({c: 'raise'})
      if not quick:
        tdsets.append({c: 'raise' for c in allp})
      for tdmode in tdsets:
        nodes = [phase('p1', beh('CE'), plugs=pa),
                 group('g1', [], [phase('p2', beh('CS'), plugs=pb)], [phase('t1', beh('C'), plugs=pa)])]
        st = None if pst is None else phase('st', beh('CE'), plugs=pst)
        out.append(program(nodes, start=st, tdiag=[('0',)],
                           plugspec=dict(bad=bad, tdmode=tdmode)))
  return out


# ----------------------------------------------------------------------
# emission

def _emit_shard(args):
  name, idx, plist = args
  mod = progs.module('MCExec', plist)
  res = tlc.run('MCExec', CFG, gen={'MCExec.tla': mod}, workers=2, heap='2g', timeout=1500)
  return name, idx, res


def emit(chk, name, programs, pool, replay_fn, extra=None):
  """Runs TLC on shards of `programs`; every emitted scenario is replayed by
  replay_fn (in pool workers).  Returns the list of per-scenario results."""
  size = shard_size(len(programs))
  shards = [programs[i:i + size] for i in range(0, len(programs), size)]
  t0 = time.time()
  results = []
  nsc = 0
  with cf.ThreadPoolExecutor(10) as ex:
    futs = [ex.submit(_emit_shard, (name, i, sh)) for i, sh in enumerate(shards)]
    pending = []
    agg = dict(distinct=0, generated=0)
    for fu in cf.as_completed(futs):
      _, idx, res = fu.result()
      tlc.must_pass(res, 'Executor design check, family %s shard %d' % (name, idx))
      chk.states += res.distinct
      chk.transitions += res.generated
      agg['distinct'] += res.distinct
      agg['generated'] += res.generated
      chunks = tlaval.split_prints(res.out, 'HIST', 6)
      for c in chunks:
        pending.append(pool.apply_async(replay_fn, ((name, idx, shards[idx], c, extra),)))
    for p in pending:
      r = p.get()
      nsc += r['n']
      results.append(r)
  chk.tlc_runs.append(dict(name='emit:' + name, programs=len(programs), shards=len(shards),
                           distinct=agg['distinct'], generated=agg['generated'], scenarios=nsc,
                           wall_s=round(time.time() - t0, 1)))
  chk.log('family %s: %d programs, %d states, %d scenarios replayed (%.0fs)'
          % (name, len(programs), agg['distinct'], nsc, time.time() - t0))
  return results


# ----------------------------------------------------------------------
# comparison

def needs_sched(prog_calls):
  return any(c['b'] in ('T', 'A') for c in prog_calls)


def split_dg(dg):
  return [r for r in dg if r.islower()], [r for r in dg if r.isupper()]


def compare(o, g, prog):
  """o: model observation, g: real observation.  Returns list of
  (category, message)."""
  bad = []
  if g.get('sched_failure'):
    bad.append(('no_return', g['sched_failure']))
    return bad
  if g.get('crashed'):
    bad.append(('executor_crash', 'a framework thread died with %s' % g['crashed'][0]))
  if g.get('errors'):
    bad.append(('calls', g['errors'][0]))
  if o['oc'] != g['oc']:
    bad.append(('outcome', 'outcome %s, model says %s' % (g['oc'], o['oc'])))
  if g.get('ret') != (g['oc'] == 'PASS'):
    bad.append(('outcome', 'execute() returned %r with outcome %s' % (g.get('ret'), g['oc'])))
  mc = [(c['n'], c['att'], c['b']) for c in o['calls']]
  gc = [(c['n'], c['att'], c['b']) for c in g['calls']]
  if mc != gc:
    bad.append(('calls', 'bodies invoked %s, model says %s' % (_short(gc), _short(mc))))
  else:
    ms = [c['seen'] for c in o['calls']]
    gs = [c['seen'] for c in g['calls']]
    if ms != gs:
      bad.append(('record_timing', 'records visible at body start %s, model says %s'
                  % (gs, ms)))
  mr = [(r['name'], r['oc'], r['res'], r['sub'], r['marg']) + tuple(map(tuple, split_dg(r['dg'])))
        for r in o['recs']]
  gr = [(r['name'], r['oc'], r['res'], r['sub'], r['marg'], tuple(r['dg']), tuple(r['fdg']))
        for r in g['recs']]
  if mr != gr:
    i = next((k for k in range(min(len(mr), len(gr))) if mr[k] != gr[k]), min(len(mr), len(gr)))
    bad.append(('phase_records', 'phase record %d is %s, model says %s'
                % (i, gr[i] if i < len(gr) else 'missing', mr[i] if i < len(mr) else 'absent')))
  # internal diagnoses (harness choice per diagnoser) are kept out of the record's list
  exp_diags, idx = [], 0
  internal = set(g.get('internal_slots', []))
  for dc in g.get('dcalls', []):
    if dc['b'] in ('0', '!') or idx >= len(o['diags']):
      continue
    if not (dc['n'] in internal and dc['b'].islower()):
      exp_diags.append(o['diags'][idx])
    idx += 1
  exp_diags += o['diags'][idx:]
  o = dict(o, diags=exp_diags)
  for key, cat in (('subs', 'subtests'), ('brs', 'branches'), ('cks', 'checkpoints'),
                   ('diags', 'diagnoses')):
    if o[key] != g[key]:
      bad.append((cat, '%s records %s, model says %s' % (cat, g[key], o[key])))
  bad += plug_rules(o, g, prog)
  bad += false_pass_rules(g, prog)
  bad += teardown_rules(o, g, prog)
  return bad


def teardown_rules(o, g, prog):
  """C03 evaluated on the real call log: which groups were entered is taken
  from the model (it is determined by the setup results, which the script
  fixes); the teardown bodies are counted in the real log."""
  bad = []
  groups = {n['name']: n for n in progs.all_nodes(prog['root']) if n['k'] == 'group'}
  count = {}
  for c in g.get('calls', []):
    if c['att'] == 1:
      count[c['n']] = count.get(c['n'], 0) + 1
  for gname in o.get('entered', []):
    for p in groups[gname]['tdn']:
      if p['k'] == 'phase' and p['opts']['runif'] not in ('false', 'raise'):
        n = count.get(p['name'], 0)
        if n != 1:
          bad.append(('teardown', 'teardown phase of an entered group ran %d times' % n))
  # nodes nested in a teardown node (a Subtest, a sequence, a branch, an inner group): every phase below an
  # entered group's teardown is invoked as often as in the model ("This also applies to all nested phase nodes")
  mcount = {}
  for c_ in o.get('calls', []):
    if c_['att'] == 1:
      mcount[c_['n']] = mcount.get(c_['n'], 0) + 1
  for gname in o.get('entered', []):
    for p in groups[gname]['tdn']:
      if p['k'] != 'phase':
        for q in progs.all_nodes(p):
          if q['k'] == 'phase' and count.get(q['name'], 0) != mcount.get(q['name'], 0):
            bad.append(('teardown', 'a phase nested in a teardown node of an entered group ran %d times, model says %d'
                        % (count.get(q['name'], 0), mcount.get(q['name'], 0))))
  for gname in o.get('notent', []):
    for part in ('main', 'tdn'):
      for p in groups[gname][part]:
        if p['k'] == 'phase' and count.get(p['name'], 0):
          bad.append(('teardown', '%s phase of a group whose setup did not complete ran'
                      % ('main' if part == 'main' else 'teardown')))
  return bad


def false_pass_rules(g, prog):
  """The statement of C01 evaluated directly on the real observation."""
  bad = []
  if g.get('oc') != 'PASS' and not g.get('ret'):
    return bad
  recs = g.get('recs', [])
  for i, r in enumerate(recs):
    if r['oc'] in ('FAIL', 'ERROR'):
      sup = i + 1 < len(recs) and recs[i + 1]['name'] == r['name']
      if sup and r['oc'] == 'ERROR':
        bad.append(('false_pass', 'PASS although an invocation superseded by a retry is recorded ERROR'))
      else:
        bad.append(('false_pass', 'PASS with a %s phase record' % r['oc']))
  if recs and all(r['oc'] == 'SKIP' for r in recs):
    bad.append(('false_pass', 'PASS although every phase record is SKIP'))
  if any(d['fail'] for d in g.get('diags', [])):
    bad.append(('false_pass', 'PASS with a failure diagnosis'))
  if any(s['oc'] == 'FAIL' for s in g.get('subs', [])):
    bad.append(('false_pass', 'PASS with a failed subtest'))
  if g.get('crashed'):
    bad.append(('false_pass', 'PASS although the executor failed'))
  # every declared phase ran or was skipped by a documented rule: a phase that
  # neither ran nor has a SKIP record must be excluded by run_if or sit in a branch
  ran = {c['n'] for c in g.get('calls', [])} | {r['name'] for r in recs}
  for p in progs.all_phases(prog['root']):
    if p['name'] in ran or p['opts']['runif'] in ('false',):
      continue
    if _inside_branch(prog['root'], p['name']):
      continue
    bad.append(('false_pass', 'PASS although declared phase never ran and was not skipped by a documented rule'))
    break
  return bad


def _inside_branch(node, name, inb=False):
  k = node['k']
  if k == 'phase':
    return inb and node['name'] == name
  if k in ('seq', 'subtest', 'branch'):
    return any(_inside_branch(c, name, inb or k == 'branch') for c in node['ch'])
  if k == 'group':
    return any(_inside_branch(c, name, inb) for part in ('setup', 'main', 'tdn') for c in node[part])
  return False


def _short(x):
  s = str(x)
  return s if len(s) < 300 else s[:300] + '...'


def plug_rules(o, g, prog):
  """C08 evaluated on the real event log + comparison with the model."""
  bad = []
  ev = g.get('events', [])
  spec = prog['plugspec']
  if not spec['all']:
    return bad
  new = [e for e in ev if e[0] == 'plug' and e[1] == 'new']
  fail = [e for e in ev if e[0] == 'plug' and e[1] == 'fail']
  td = [e for e in ev if e[0] == 'plug' and e[1] == 'teardown']
  classes = [e[2] for e in new]
  if len(set(classes)) != len(classes):
    bad.append(('plugs', 'a plug class was constructed twice: %s' % classes))
  for e in new:
    n = sum(1 for t in td if t[3] == e[3])
    if n != 1:
      bad.append(('plugs', 'plug %s instance torn down %d times' % (e[2], n)))
  for t in td:
    if not any(e[3] == t[3] for e in new):
      bad.append(('plugs', 'tearDown of a plug that was never constructed: %s' % (t[2],)))
  m_ctor = sorted((c[0], c[1]) for c in o['plugs']['ctor'])
  g_ctor = sorted([(e[2], 'ok') for e in new] + [(e[2], 'fail') for e in fail])
  if [c for c in m_ctor if c[1] == 'ok'] != [c for c in g_ctor if c[1] == 'ok'] or (
      bool([c for c in m_ctor if c[1] == 'fail']) != bool([c for c in g_ctor if c[1] == 'fail'])):
    # which failing constructor is reached first depends on set order; compare existence
    if not o['plugs']['failed'] or not fail:
      bad.append(('plugs', 'plugs constructed %s, model says %s' % (g_ctor, m_ctor)))
  # ordering: every tearDown after the last body / test diagnoser, before callbacks
  idx = {i: e for i, e in enumerate(ev)}
  last_body = max([i for i, e in idx.items() if e[0] in ('body', 'tdiag', 'diag')], default=-1)
  first_cb = min([i for i, e in idx.items() if e[0] == 'cb'], default=len(ev))
  for i, e in idx.items():
    if e[0] == 'plug' and e[1] == 'teardown':
      if i < last_body:
        bad.append(('plugs', 'plug tearDown before the last phase/diagnoser finished'))
      if i > first_cb:
        bad.append(('plugs', 'plug tearDown after the output callbacks'))
  # same instance under the requested name; only start plugs during test_start
  inst = {e[2]: e[3] for e in new}
  for c in g['calls']:
    for argname, iid in c.get('pl', {}).items():
      cid = argname.replace('plug_', '')
      if inst.get(cid) != iid:
        bad.append(('plugs', 'phase %s received a different instance of plug %s' % (c['n'], cid)))
  if prog['start']['k'] != 'none':
    st_i = next((i for i, e in idx.items() if e[0] == 'body' and e[1] == prog['start']['name']), None)
    if st_i is not None:
      early = [e[2] for i, e in idx.items() if i < st_i and e[0] == 'plug' and e[1] in ('new', 'fail')]
      extra = set(early) - set(spec['start'])
      if extra:
        bad.append(('plugs', 'plugs %s constructed before test_start ran' % sorted(extra)))
  return bad


def replay_chunk(args):
  """Pool worker: parse a chunk of TLC output, replay every scenario."""
  import sys
  sys.argv = sys.argv[:1]
  from vf import build
  name, idx, plist, text, extra = args
  hists = tlaval.parse_many(text, 'HIST')
  out = dict(n=0, bad=[], nontrivial=0, sample=None, cats={})
  for (o,) in hists:
    prog = plist[o['p'] - 1]
    # (monitored phases start a sampling thread per invocation: always under the deterministic scheduler)
    use_sched = (needs_sched(o['calls']) or bool((extra or {}).get('force_sched')) or
                 any(p.get('mon') for p in progs.all_phases(prog['root'])) or
                 any(v in ('hang', 'hardhang') for v in prog['plugspec']['tdmode'].values()))
    g = build.run_program(prog, o['calls'], use_sched=use_sched, timeout_s=5 if use_sched else None)
    bad = compare(o, g, prog)
    out['n'] += 1
    if len(o['calls']) >= 2 or o['recs']:
      out['nontrivial'] += 1
    for cat, msg in bad:
      out['cats'][cat] = out['cats'].get(cat, 0) + 1
    if bad and len(out['bad']) < 6:
      out['bad'].append(dict(family=name, shard=idx, prog_index=o['p'] - 1, tier=(extra or {}).get('tier', 'quick'),
                             program=progs.tla(prog), calls=o['calls'],
                             model=dict(oc=o['oc'], recs=o['recs'], subs=o['subs']),
                             real=dict(oc=g.get('oc'), recs=g.get('recs'), crashed=g.get('crashed')),
                             mismatches=bad))
    if out['sample'] is None and len(o['calls']) >= 2:
      out['sample'] = dict(family=name, program=progs.tla(prog)[:600],
                           calls=[(c['n'], c['b'], c['m']) for c in o['calls']], outcome=o['oc'])
  return out


def run_families(chk, fams, owned, note_others=True, extra=None):
  extra = dict(extra or {}, tier=chk.tier)
  """fams: list of (name, programs).  owned: dict category -> signature prefix
  for categories whose mismatch is a violation of this property."""
  with mp.Pool(14, maxtasksperchild=40) as pool:
    for name, plist in fams:
      res = emit(chk, name, plist, pool, replay_chunk, extra)
      for r in res:
        chk.traces += r['n']
        chk.nontrivial += r['nontrivial']
        if r['sample']:
          chk.sample(r['sample'])
        for b in r['bad']:
          for cat, msg in b['mismatches']:
            if cat in owned:
              chk.violation('%s: %s' % (owned[cat], generalise(msg)), b)
            elif note_others:
              chk.note('nonconformance outside this property (%s): %s' % (cat, generalise(msg)))


def generalise(msg):
  """Signatures must be stable across scenarios: keep the kind of mismatch."""
  import re
  msg = re.sub(r"\[.*", '', msg)
  msg = re.sub(r"\(.*", '', msg)
  return msg.strip()[:160]


def replay_file(path, owned, pid, families_fn):
  """Re-executes one recorded scenario on the current tree."""
  import json
  import sys
  sys.argv = sys.argv[:1]
  from vf import build
  with open(path) as fh:
    sc = json.load(fh)['scenario']
  fams = dict(families_fn(sc.get('tier', 'quick')))
  prog = fams[sc['family']][sc['shard'] * shard_size(len(fams[sc['family']])) + sc['prog_index']]
  use_sched = (needs_sched(sc['calls']) or any(v in ('hang', 'hardhang') for v in prog['plugspec']['tdmode'].values()) or
               any(p.get('mon') for p in progs.all_phases(prog['root'])))
  g = build.run_program(prog, sc['calls'], use_sched=use_sched, timeout_s=5 if use_sched else None)
  print('real observation: outcome=%s ret=%s crashed=%s' % (g.get('oc'), g.get('ret'), g.get('crashed')))
  print('calls:', [(c['n'], c['att'], c['b']) for c in g.get('calls', [])])
  print('recs:', [(r['name'], r['oc'], r['res']) for r in g.get('recs', [])])
  print('model: outcome=%s' % sc['model']['oc'])
  bad = 0
  # the model side of the scenario is stored in the file; compare the fields it has
  for cat, msg in sc['mismatches']:
    print('recorded mismatch: [%s] %s' % (cat, msg))
  if g.get('oc') != sc['model']['oc'] or g.get('crashed') or g.get('sched_failure'):
    bad = 1
  mr = [(r['name'], r['oc'], r['res'], r['sub']) for r in sc['model']['recs']]
  gr = [(r['name'], r['oc'], r['res'], r['sub']) for r in g.get('recs', [])]
  if mr != gr:
    bad = 1
  if bad:
    print('VIOLATION property=%s replay=%s' % (pid, path))
    return 1
  print('replay: the scenario now conforms to the model')
  return 0
