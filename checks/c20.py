"""C20 — configuration layers.  Spec: specs/Config.tla.

1. design check (TLC, exhaustive, hist hidden by a VIEW): Precedence,
   UndeclaredNeverReadable, ViewsAgree, RestoreExact, ResetKeepsFlags, ...
2. spec->code: TLC enumerates every history up to a bound (and random long
   walks with -simulate); each is replayed on a fresh real _Configuration and
   after every operation every read API is compared with the model's
   observation.
"""
import argparse
import json
import multiprocessing as mp
import os

from vf import common, tlaval, tlc

KEYS_PY = {'ka': 'ka', 'kb': 'kb', 'kc': 'kc', 'Bad': 'Bad'}

# value-token concretisations: (python value, yaml text for --config-value)
FAMILIES = [
    {'v1': (1, '1'), 'v2': (2, '2')},
    {'v1': ('x', 'x'), 'v2': ('y', 'y')},
    {'v1': (1, '1'), 'v2': ('1', "'1'")},
    {'v1': ([1, 2], '[1, 2]'), 'v2': ({'a': 1}, '{a: 1}')},
    {'v1': (None, 'null'), 'v2': (False, 'false')},
    {'v1': (0, '0'), 'v2': ('', "''")},
    {'v1': (1.5, '1.5'), 'v2': (True, 'true')},
]

ERRS = ('UndeclaredKeyError', 'UnsetKeyError', 'DefaultNotDefinedError',
        'KeyAlreadyDeclaredError', 'InvalidKeyError', 'AttributeError')


class Boom(Exception):
  pass


def _tok(fam, value):
  for t, (v, _) in fam.items():
    if type(v) is type(value) and v == value:
      return t
  return 'other:%r' % (value,)


def _try(fn, fam):
  try:
    return _tok(fam, fn())
  except Exception as e:  # pylint: disable=broad-except
    return type(e).__name__


def observe(conf, holders, keys, fam):
  out = {}
  snap = conf._asdict()
  for k in keys:
    d = {}
    try:
      d['in'] = k in conf
    except Exception as e:  # pylint: disable=broad-except
      d['in'] = type(e).__name__
    d['item'] = _try(lambda: conf[k], fam)
    d['attr'] = _try(lambda: getattr(conf, k), fam)
    if k in holders:
      d['holder'] = _try(lambda: holders[k].value, fam)
      d['hdefault'] = _try(lambda: holders[k].default, fam)
      d['hname'] = holders[k].name
    d['asdict'] = _tok(fam, snap[k]) if k in snap else 'absent'
    out[k] = d
  return out


def replay_history(hist, fam_i):
  """Returns (list of mismatches, nontrivial flag).  A mismatch is
  (signature, detail)."""
  from openhtf.util import configuration
  fam = FAMILIES[fam_i]
  conf = configuration._Configuration()
  holders = {}
  bad = []
  nontrivial = [False]
  it = iter(enumerate(hist))

  def cmp_obs(idx, opname, model):
    got = observe(conf, holders, list(model.keys()), fam)
    for k, (m_in, m_read, m_hdef, m_asdict) in model.items():
      g = got[k]
      exp = {'in': m_in, 'item': m_read, 'attr': m_read, 'asdict': m_asdict}
      if m_read not in ERRS:
        nontrivial[0] = True
      if 'holder' in g:
        exp['holder'] = m_read
        exp['hdefault'] = m_hdef
        exp['hname'] = k
      declared = m_read != 'UndeclaredKeyError'
      for f, e in exp.items():
        if f == 'asdict' and not declared:
          continue  # the property speaks about declared keys only
        if g[f] != e:
          bad.append(('config: after %s the %s view of a %s key is wrong'
                      % (opname, f, 'declared' if declared else 'undeclared'),
                      dict(step=idx, key=k, field=f, expected=e, got=g[f])))

  def cmp_res(idx, opname, exp, got):
    if exp != got:
      bad.append(('config: %s returned/raised %s, model says %s' % (opname, got, exp),
                  dict(step=idx)))

  def kvdict(kvs):
    return {k: fam[v][0] for k, v in kvs}

  def do_load(idx, kvs, ov, allow, api):
    d = kvdict(kvs)
    if api == 'kw':
      conf.load(_override=ov, _allow_undeclared=allow, **d)
    elif api == 'dict':
      conf.load_from_dict(d, _override=ov, _allow_undeclared=allow)
    else:
      import io
      import yaml
      conf.load_from_file(io.StringIO(yaml.safe_dump(d, sort_keys=False)),
                          _override=ov, _allow_undeclared=allow)

  def run_ops():
    while True:
      nxt = next(it, None)
      if nxt is None:
        return ('end',)
      idx, (op, res, obs) = nxt
      name = op[0]
      if name == 'save_return':
        return ('ret', idx, op[1], obs)
      if name == 'save_call':
        kvs = kvdict(op[1])
        inner = {}

        def fn(idx=idx, obs=obs, inner=inner):
          cmp_obs(idx, 'save_and_restore entry', obs)
          r = run_ops()
          inner['r'] = r
          if r[0] == 'ret' and r[2]:
            raise Boom()
          return 'retval'

        if idx % 2:
          wrapped = conf.save_and_restore(fn, **kvs)
        elif kvs:
          wrapped = conf.save_and_restore(**kvs)(fn)
        else:
          wrapped = conf.save_and_restore(fn)
        try:
          rv = wrapped()
          raised = False
        except Boom:
          raised = True
          rv = None
        r = inner.get('r', ('end',))
        if r[0] == 'end':
          return r
        cmp_res(r[1], 'save_and_restore wrapper', 'raised' if r[2] else 'ok',
                'raised' if raised else ('ok' if rv == 'retval' else 'lost return value'))
        cmp_obs(r[1], 'save_and_restore return%s' % (' by exception' if r[2] else ''), r[3])
        continue
      got = 'ok'
      try:
        if name == 'declare':
          k, d = op[1], op[2]
          if d == 'none':
            h = conf.declare(k) if idx % 2 else conf.declare(k, 'a description')
          else:
            h = conf.declare(k, default_value=fam[d][0])
          holders[k] = h
        elif name == 'load':
          do_load(idx, op[1], op[2], op[3], op[4])
        elif name == 'flag':
          conf.load_flag_values(argparse.Namespace(
              config_value=['%s=%s' % (op[1], fam[op[2]][1])]))
        elif name == 'reset':
          conf.reset()
        elif name == 'setattr':
          setattr(conf, op[1], fam[op[2]][0])
      except Exception as e:  # pylint: disable=broad-except
        got = type(e).__name__
      cmp_res(idx, name, res, got)
      cmp_obs(idx, name, obs)

  run_ops()
  return bad, nontrivial[0]


def _work(args):
  import logging
  logging.getLogger('openhtf').addHandler(logging.NullHandler())
  logging.getLogger('openhtf').propagate = False
  text, fam_base, nfam = args
  hists = tlaval.parse_many(text, 'HIST')
  n_ops = 0
  bad_all = []
  nontriv = 0
  sample = None
  for i, (hist,) in enumerate(hists):
    for f in range(nfam):
      fam_i = (fam_base + i + f) % len(FAMILIES)
      bad, nt = replay_history(hist, fam_i)
      n_ops += len(hist)
      if f == 0:
        nontriv += nt
      for sig, det in bad[:1]:
        if len(bad_all) < 20:
          det = dict(det, history=hist, family=fam_i)
          bad_all.append((sig, det))
    if sample is None and len(hist) >= 2:
      sample = hist
  return len(hists), n_ops, nontriv, bad_all, sample


CFG = '''CONSTANTS
  Keys = {%(keys)s}
  BadKeys = {"Bad"}
  Vals = {"v1", "v2"}
  Apis = {%(apis)s}
  MaxLen = %(maxlen)d
  MaxNest = %(nest)d
  Load2On = %(load2)s
SPECIFICATION Spec
CONSTRAINT HistConstraint
INVARIANT Emit
CHECK_DEADLOCK FALSE
'''


def emit_and_replay(chk, name, pool, nfam, simulate=None, **kw):
  cfg = CFG % kw
  if simulate:
    res = tlc.run('Config', cfg, workers=1, simulate=simulate,
                  depth=kw['maxlen'] + 1, seed=chk.seed + 1)
    if res.error:
      raise tlc.TLCError('simulate %s: %s' % (name, res.out[-2000:]))
  else:
    res = tlc.must_pass(tlc.run('Config', cfg, workers=8), 'emit ' + name)
  chunks = tlaval.split_prints(res.out, 'HIST', 64)
  if not chunks:
    raise tlc.TLCError('emit %s produced no histories' % name)
  out = pool.map(_work, [(c, chk.seed + i, nfam) for i, c in enumerate(chunks)])
  nh = sum(o[0] for o in out)
  chk.add_tlc('emit:' + name, res, histories=nh, simulate=bool(simulate))
  chk.traces += nh * nfam
  chk.evaluations += sum(o[1] for o in out)
  chk.nontrivial += sum(o[2] for o in out)
  for o in out:
    for sig, det in o[3]:
      chk.violation(sig, det)
    if o[4]:
      chk.sample(dict(source=name, history=o[4]))
  chk.log('%s: %d histories x %d families replayed' % (name, nh, nfam))
  return nh


def selftest(chk):
  """Binding demonstration: a corrupted model observation must be reported."""
  hist = [[['declare', 'ka', 'v1'], 'ok', {'ka': [True, 'v1', 'v1', 'v1']}],
          [['load', [['ka', 'v2']], True, False, 'dict'], 'ok', {'ka': [True, 'v2', 'v1', 'v2']}]]
  bad, _ = replay_history(hist, 0)
  if bad:
    raise tlc.TLCError('selftest: reference history rejected: %r' % bad[:1])
  hist[1][2]['ka'][1] = 'v1'
  bad, _ = replay_history(hist, 0)
  if not bad:
    raise tlc.TLCError('selftest: corrupted observation was not detected')
  chk.cov['binding_selftest'] = 'corrupted model observation detected'


def metadata_runs(_):
  """"the _asdict() snapshot stored in test metadata always agree": one Test object executed after
  every change of the effective configuration - the snapshot in each record is the configuration
  of that execution"""
  import sys
  sys.argv = sys.argv[:1]
  import openhtf as htf
  from vf import build
  conf = build.CONF
  for key, default in (('c20_meta_a', 1), ('c20_meta_b', 'dflt')):
    try:
      conf.declare(key, default_value=default)
    except Exception:  # pylint: disable=broad-except
      pass

  def ph(test):
    pass
  t = htf.Test(ph)
  out = []
  t.add_output_callbacks(out.append)
  bad = []
  steps = [lambda: conf.load(c20_meta_a=2, _override=True),
           lambda: conf.load(c20_meta_a=3, c20_meta_b='x', _override=True),
           lambda: conf.load(c20_meta_a=None, _override=True),
           lambda: conf.load_from_dict({'c20_meta_b': 'kept?'}, _override=False),
           lambda: conf.load(c20_meta_b='y', _override=True)]
  try:
    for i, step in enumerate(steps):
      step()
      want = {k: conf[k] for k in ('c20_meta_a', 'c20_meta_b')}
      t.execute()
      got = out[-1].metadata.get('config', {})
      if {k: got.get(k, '<absent>') for k in want} != want:
        bad.append('the configuration snapshot in the record of execution %d of a Test disagrees with the configuration '
                   'read at that time' % (i + 1))
  finally:
    conf.load(c20_meta_a=1, c20_meta_b='dflt', _override=True)
  return bad


def main(chk):
  quick = chk.tier == 'quick'
  res = tlc.must_pass(tlc.run('Config', 'Config_mc.cfg', coverage=True, timeout=1500),
                      'Config design check')
  cov = res.coverage()
  for a in ('Declare', 'DeclareBad', 'Load', 'Flag', 'Reset', 'SaveCall', 'SaveReturn', 'SetAttr'):
    if cov.get(a, (0, 0))[1] == 0:
      raise tlc.TLCError('vacuity: action %s never taken in design check' % a)
  chk.add_tlc('design', res, action_counts={k: v[1] for k, v in cov.items()})
  chk.log('design check: %d distinct states' % res.distinct)
  selftest(chk)
  with mp.Pool(16) as pool:
    if quick:
      emit_and_replay(chk, 'exhaustive-1key-len4', pool, 1, keys='"ka"', apis='"dict"',
                      maxlen=4, nest=2, load2='FALSE')
      emit_and_replay(chk, 'walks-3keys-len30', pool, 2, simulate=2500, keys='"ka", "kb", "kc"',
                      apis='"kw", "dict", "file"', maxlen=30, nest=2, load2='TRUE')
    else:
      emit_and_replay(chk, 'exhaustive-1key-len5', pool, 2, keys='"ka"', apis='"dict"',
                      maxlen=5, nest=2, load2='FALSE')
      emit_and_replay(chk, 'exhaustive-2keys-len3', pool, 3, keys='"ka", "kb"',
                      apis='"dict", "file"', maxlen=3, nest=2, load2='TRUE')
      emit_and_replay(chk, 'walks-3keys-len40', pool, len(FAMILIES), simulate=40000,
                      keys='"ka", "kb", "kc"', apis='"kw", "dict", "file"', maxlen=40,
                      nest=3, load2='TRUE')
  with mp.Pool(1) as pool:
    for sig in pool.apply(metadata_runs, (0,)):
      chk.violation(sig, dict(scenario='metadata snapshot of repeated executions'))
  chk.traces += 5
  chk.assumptions += [
      'flag values are injected through load_flag_values(Namespace) rather than sys.argv',
      'value tokens are concretised by %d families of Python values (ints, strs, lists/dicts, '
      'None/False, 0/"", float/bool)' % len(FAMILIES),
      '_asdict() entries of undeclared keys are not compared (the statement speaks about declared keys)']
  chk.cov['rule'] = ('TLC enumerates every operation history of the Config model up to the '
                     'bound (each a distinct state, hist is a state variable) and random walks; '
                     'non-trivial = at least one read returned a value rather than an error')
  return chk.finish(
      explanation='design check of Config.tla + replay of TLC-emitted histories on real '
      '_Configuration objects with every read API compared after every operation',
      exhaustive=True)


def replay(path):
  with open(path) as fh:
    sc = json.load(fh)['scenario']
  bad, _ = replay_history(sc['history'], sc['family'])
  for sig, det in bad:
    print('VIOLATION property=C20 replay=%s' % path)
    print('  what: %s %s' % (sig, det))
    return 1
  print('replay: history conforms')
  return 0
