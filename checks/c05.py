"""C05 - phase result -> outcome mapping, repeat limit, run_if.  Spec:
Executor.tla (Invocation, ShouldRepeat, PhaseNotRun; invariants AtMostLimit,
OneRecordPerInvocation)."""
from checks import execlib

OWNED = {'phase_records': 'phase record', 'calls': 'body invocations',
         'diagnoses': 'diagnoses', 'no_return': 'execute() did not return',
         'executor_crash': 'executor thread failed'}


def fam_timeouts():
  from vf.progs import beh, opts, phase, program, group, subtest
  out = []
  for rot in (False, True):
    for limit in (1, 2, 0):
      for pos in ('top', 'subtest', 'teardown'):
        p = phase('p', beh('TC' if limit != 1 else 'T', ('p', 'f')), o=opts(rot=rot, limit=limit),
                  mk='scalar', ndiag=1)
        p['beh'] = frozenset((b, m, ('a',)) for (b, m, _) in p['beh'])
        q = phase('q', beh('C'))
        out.append(program(dict(execlib._positions(p, q))[pos]))
  return out


def fam_aborts():
  """an operator abort arrives while the body of a phase with diagnosers runs: "phase diagnosers run
  once per invocation that was neither skipped, repeated nor aborted"; in a teardown phase the single
  abort does not reach the body and the diagnosers run as usual"""
  from vf.progs import beh, opts, phase, program
  out = []
  for limit in (1, 2):
    for pos in ('top', 'subtest', 'teardown'):
      p = phase('p', beh('A', ('p', 'f')), o=opts(limit=limit), mk='scalar', ndiag=2)
      p['beh'] = frozenset((b, m, d) for (b, m, _) in p['beh'] for d in (('a', 'b'), ('B', '0'), ('0', '!')))
      q = phase('q', beh('C'))
      out.append(program(dict(execlib._positions(p, q))[pos]))
  return out


def families(tier):
  fams = [('table', execlib.fam_table(tier)), ('options', execlib.fam_options(tier)),
          ('timeouts', fam_timeouts()), ('aborts', fam_aborts())]
  return fams


def main(chk):
  execlib.run_families(chk, families(chk.tier), OWNED)
  chk.cov['rule'] = ('option vectors x positions x per-invocation (behaviour, measurement, diagnoser) '
                     'sequences enumerated by TLC; non-trivial = at least two invocations or one record')
  chk.assumptions.append('timeouts run under the cooperative scheduler with virtual time (timeout_s=5)')
  return chk.finish(explanation='the outcome table / repeat loop of Executor.tla replayed row by row on the '
                    'real PhaseExecutor through real tests', exhaustive=True)


def replay(path):
  return execlib.replay_file(path, OWNED, 'C05', families)
