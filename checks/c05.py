"""C05 - phase result -> outcome mapping, repeat limit, run_if.  Spec:
Executor.tla (Invocation, ShouldRepeat, PhaseNotRun; invariants AtMostLimit,
OneRecordPerInvocation)."""
from checks import execlib

OWNED = {'phase_records': 'phase record', 'calls': 'body invocations',
         'diagnoses': 'diagnoses', 'no_return': 'execute() did not return',
         'executor_crash': 'executor thread failed'}


def fam_timeouts():
  from vf.progs import beh, opts, phase, program, group, subtest
  out = []
  for rot in (False, True):
    for limit in (1, 2, 0):
      for pos in ('top', 'subtest', 'teardown'):
        p = phase('p', beh('TC' if limit != 1 else 'T', ('p', 'f')), o=opts(rot=rot, limit=limit),
                  mk='scalar', ndiag=1)
        p['beh'] = frozenset((b, m, ('a',)) for (b, m, _) in p['beh'])
        q = phase('q', beh('C'))
        out.append(program(dict(execlib._positions(p, q))[pos]))
  return out


def fam_aborts():
  """an operator abort arrives while the body of a phase with diagnosers runs: "phase diagnosers run
  once per invocation that was neither skipped, repeated nor aborted"; in a teardown phase the single
  abort does not reach the body and the diagnosers run as usual"""
  from vf.progs import beh, opts, phase, program
  out = []
  for limit in (1, 2):
    for pos in ('top', 'subtest', 'teardown'):
      p = phase('p', beh('A', ('p', 'f')), o=opts(limit=limit), mk='scalar', ndiag=2)
      p['beh'] = frozenset((b, m, d) for (b, m, _) in p['beh'] for d in (('a', 'b'), ('B', '0'), ('0', '!')))
      q = phase('q', beh('C'))
      out.append(program(dict(execlib._positions(p, q))[pos]))
  return out


def families(tier):
  fams = [('table', execlib.fam_table(tier)), ('options', execlib.fam_options(tier)),
          ('timeouts', fam_timeouts()), ('aborts', fam_aborts())]
  return fams


def timing_rows(chk):
  """the (timeout, body duration, lingering thread, result) rows of PhaseTimeout.tla whose body returns in
  time, with repeat_on_timeout set: "ERROR for a timeout" / "only re-invoked for ... repeat_on_timeout"
  need a body that is still running at the deadline - a thread that merely has not exited yet is not one"""
  import multiprocessing as mp
  from checks import c12
  from vf import tlc
  res = tlc.must_pass(tlc.run('PhaseTimeout', 'PhaseTimeout_mc.cfg', workers=2), 'PhaseTimeout design check')
  chk.add_tlc('PhaseTimeout', res)
  rows = [dict(r[0], rot=1) for r in res.prints('ROW') if r[0]['outcome'] != 'TIMEOUT']
  with mp.Pool(12, maxtasksperchild=20) as pool:
    outs = pool.map(c12.rows_work, [rows[i::24] for i in range(24)])
  for n, bad in outs:
    chk.traces += n
    chk.nontrivial += n
    for sig, r in bad:
      chk.violation(sig, dict(row=r))
  chk.log('%d in-time rows (some with a lingering phase thread) replayed with repeat_on_timeout' % len(rows))


def main(chk):
  execlib.run_families(chk, families(chk.tier), OWNED)
  timing_rows(chk)
  chk.cov['rule'] = ('option vectors x positions x per-invocation (behaviour, measurement, diagnoser) '
                     'sequences enumerated by TLC; non-trivial = at least two invocations or one record')
  chk.assumptions.append('timeouts run under the cooperative scheduler with virtual time (timeout_s=5)')
  return chk.finish(explanation='the outcome table / repeat loop of Executor.tla replayed row by row on the '
                    'real PhaseExecutor through real tests', exhaustive=True)


def replay(path):
  import json
  with open(path) as fh:
    sc = json.load(fh).get('scenario', {})
  if 'row' in sc:
    from checks import c12
    bad = c12.run_row(sc['row'])
    if bad:
      print('VIOLATION property=C05 replay=%s\n  what: %s' % (path, bad[0]))
      return 1
    print('replay: the row behaves as PhaseTimeout.tla says')
    return 0
  return execlib.replay_file(path, OWNED, 'C05', families)
