"""C19 - log capture: every run log recorded once, in order, in its own run.
Specs: Logs.tla (routing by logger name / uid, handler add/remove over
histories, redaction table) and LogsWalk.tla (a logging call walking the
handler list while another run removes its handler).

A. TLC emits every history of start/end/log operations over two prefix-related
   uids; each is replayed with the real logs functions and real TestRecords.
B. LogsWalk: TLC (copy-on-write holds, in-place removal loses the message); the
   real remove_record_handler is explored against a concurrent framework log call
   by preemption-bounded DFS with logging's own locks as scheduling points.
C. whole tests: consecutive runs and two concurrent runs under seeded random
   schedules, every logger kind.
D. the redaction table replayed on the real filter through a real handler."""
import json
import logging
import multiprocessing as mp
import random
import re
import sys
import threading

from vf import common, tlaval, tlc

UID = {'ab': '4242:ab:beef:17', 'abc': '4242:abc:beef:17'}
MAC = 'f8:8f:ca:12:34:56'


def logger_for(logs, name):
  k = name[0]
  if k == 'fw':
    return logging.getLogger('openhtf.' + name[1])
  if k == 'bare':
    return logging.getLogger('openhtf.test_record')
  base = logs.get_record_logger_for(UID[name[1]])
  if k == 'rec':
    return base
  return base.getChild('%s.%s' % (k, name[2]))


def expected_name(name):
  k = name[0]
  if k == 'fw':
    return 'openhtf.' + name[1]
  if k == 'bare':
    return 'openhtf.test_record'
  base = 'openhtf.test_record.' + UID[name[1]]
  return base if k == 'rec' else '%s.%s.%s' % (base, k, name[2])


def replay_history(hist, captured):
  from openhtf.core import test_record
  from openhtf.util import logs
  bad = []
  lg = logging.getLogger('openhtf')
  base = [h for h in lg.handlers if isinstance(h, logs.RecordHandler)]
  for h in base:
    lg.removeHandler(h)
  recs = {}
  live = set()
  notes = []
  try:
    for op in hist:
      if op[0] == 'start':
        u = op[1]
        recs[u] = test_record.TestRecord(dut_id=None, station_id='s')
        logs.initialize_record_handler(UID[u], recs[u], lambda: notes.append(1))
        live.add(u)
      elif op[0] == 'end':
        logs.remove_record_handler(UID[op[1]])
        live.discard(op[1])
      else:
        logger_for(logs, op[1]).warning('m%d', op[2]); lineno = sys._getframe().f_lineno
      n = len([h for h in lg.handlers if isinstance(h, logs.RecordHandler)])
      if n != len(live):
        bad.append('%d record handlers installed with %d live runs' % (n, len(live)))
    names = {op[2]: expected_name(op[1]) for op in hist if op[0] == 'log'}
    for u, want in captured.items():
      got = [r.message for r in recs[u].log_records] if u in recs else []
      want_m = ['m%d' % i for i in want]
      if got != want_m:
        kind = ('lost' if len(got) < len(want_m) else 'foreign or duplicated' if len(got) > len(want_m) else 'reordered')
        bad.append('a run\'s log_records hold %s messages (%s, model says %s)' % (kind, got, want_m))
        continue
      for r in (recs[u].log_records if u in recs else []):
        i = int(r.message[1:])
        if (r.level != logging.WARNING or r.logger_name != names[i] or r.source != 'c19.py' or
            not isinstance(r.lineno, int) or r.lineno <= 0 or not isinstance(r.timestamp_millis, int)):
          bad.append('a captured record lacks level / logger name / source file / line / ms timestamp')
  finally:
    for h in list(lg.handlers):
      if isinstance(h, logs.RecordHandler):
        lg.removeHandler(h)
  return bad


def work_a(text):
  sys.argv = sys.argv[:1]
  import openhtf  # noqa: F401
  out = dict(n=0, bad=[], nontrivial=0, sample=None)
  for hist, captured in tlaval.parse_many(text, 'HIST'):
    out['n'] += 1
    if any(captured.values()):
      out['nontrivial'] += 1
    bad = replay_history(hist, captured)
    if bad and len(out['bad']) < 6:
      out['bad'].append((re.sub(r'\(.*', '', bad[0]).strip(), dict(history=hist, captured=captured, detail=bad[0])))
    if out['sample'] is None and sum(1 for o in hist if o[0] == 'log') >= 3 and any(captured.values()):
      out['sample'] = dict(history=hist, captured=captured)
  return out


# ----------------------------------------------------------------------
def walk_run(policy):
  from vf import sched
  from openhtf.core import test_record
  from openhtf.util import logs
  s = sched.Sched(policy=policy, max_steps=20000, quiet_logging=False)
  box = {}

  def main():
    lg = logging.getLogger('openhtf')
    for h in list(lg.handlers):
      if isinstance(h, logs.RecordHandler):
        lg.removeHandler(h)
    ra = test_record.TestRecord(dut_id=None, station_id='s')
    rb = test_record.TestRecord(dut_id=None, station_id='s')
    ua, ub = UID['ab'], UID['abc']
    logs.initialize_record_handler(ua, ra, lambda: None)
    logs.initialize_record_handler(ub, rb, lambda: None)

    def run_b():
      logging.getLogger('openhtf.core').warning('framework message')

    def end_a():
      logs.remove_record_handler(ua)
    ths = [threading.Thread(target=run_b, name='B'), threading.Thread(target=end_a, name='A')]
    for t in ths:
      t.start()
    for t in ths:
      t.join()
    box['b'] = [r.message for r in rb.log_records]
    box['handlers'] = len([h for h in lg.handlers if isinstance(h, logs.RecordHandler)])
    logs.remove_record_handler(ub)
  s.run(main)
  return s, box


def work_b(bound):
  sys.argv = sys.argv[:1]
  from vf import explore
  import openhtf  # noqa: F401
  n, bad = 0, []
  for picks, decisions, box, failure in explore.explore(walk_run, bound, max_runs=50000):
    n += 1
    if failure is not None:
      bad.append(('logging threads never finish (%s)' % type(failure).__name__, dict(schedule=picks)))
    elif box['b'] != ['framework message']:
      bad.append(('a still-running test lost a framework log record while another run removed its handler',
                  dict(schedule=picks, got=box['b'])))
    elif box['handlers'] != 1:
      bad.append(('handler of an ended run still installed', dict(schedule=picks)))
  return n, bad[:5]


def cross_run(policy):
  """two runs alive at once, one thread logging through each run's record
  logger; every statement of openhtf/util/logs.py is a scheduling point (the
  handler filters run before any lock is taken)"""
  from vf import sched
  from openhtf.core import test_record
  from openhtf.util import logs
  s = sched.Sched(policy=policy, max_steps=40000, quiet_logging=False, trace_files=('openhtf/util/logs.py',))
  box = {}

  def main():
    lg = logging.getLogger('openhtf')
    for h in list(lg.handlers):
      if isinstance(h, logs.RecordHandler):
        lg.removeHandler(h)
    ra = test_record.TestRecord(dut_id=None, station_id='s')
    rb = test_record.TestRecord(dut_id=None, station_id='s')
    ua, ub = UID['ab'], UID['abc']
    logs.initialize_record_handler(ua, ra, lambda: None)
    logs.initialize_record_handler(ub, rb, lambda: None)
    la, lb = logs.get_record_logger_for(ua), logs.get_record_logger_for(ub)

    def run(lgr, tag, uid):
      for i in (1, 2):
        if i == 2:
          # helper code looks the run's logger up per log line (module docstring of logs.py)
          lgr = logs.get_record_logger_for(uid)
        lgr.warning('%s%d', tag, i)
    ths = [threading.Thread(target=run, args=(la, 'A', ua), name='A'), threading.Thread(target=run, args=(lb, 'B', ub), name='B')]
    for t in ths:
      t.start()
    for t in ths:
      t.join()
    box['a'] = [r.message for r in ra.log_records]
    box['b'] = [r.message for r in rb.log_records]
    logs.remove_record_handler(ua)
    logs.remove_record_handler(ub)
  s.run(main)
  return s, box


def reg_run(policy):
  """runs starting and ending at the same time: two registrations race, then
  a removal races with a third registration; afterwards every live run must
  still capture its messages and no ended run may keep a handler"""
  from vf import sched
  from openhtf.core import test_record
  from openhtf.util import logs
  s = sched.Sched(policy=policy, max_steps=40000, quiet_logging=False, trace_files=('openhtf/util/logs.py',))
  box = {}

  def main():
    lg = logging.getLogger('openhtf')
    for h in list(lg.handlers):
      if isinstance(h, logs.RecordHandler):
        lg.removeHandler(h)
    recs = {k: test_record.TestRecord(dut_id=None, station_id='s') for k in 'abc'}
    uid = dict(a=UID['ab'], b=UID['abc'], c=UID['ab'] + 'x')

    def start(k):
      logs.initialize_record_handler(uid[k], recs[k], lambda: None)

    def end(k):
      logs.remove_record_handler(uid[k])

    def par(*jobs):
      ths = [threading.Thread(target=f, args=(k,), name='%s-%s' % (f.__name__, k)) for f, k in jobs]
      for t in ths:
        t.start()
      for t in ths:
        t.join()
    par((start, 'a'), (start, 'b'))
    for k in 'ab':
      logs.get_record_logger_for(uid[k]).warning('%s1', k)
    par((end, 'a'), (start, 'c'))
    logging.getLogger('openhtf.core').warning('fw')
    for k in 'bc':
      logs.get_record_logger_for(uid[k]).warning('%s2', k)
    box['msgs'] = {k: [r.message for r in recs[k].log_records] for k in 'abc'}
    box['handlers'] = sorted(h.test_uid for h in lg.handlers if isinstance(h, logs.RecordHandler))
    box['want_handlers'] = sorted([uid['b'], uid['c']])
    for k in 'bc':
      logs.remove_record_handler(uid[k])
  s.run(main)
  return s, box


def work_r(args):
  sys.argv = sys.argv[:1]
  bound, root, maxruns = args
  from vf import explore
  import openhtf  # noqa: F401
  n, bad = 0, []
  want = dict(a=['a1'], b=['b1', 'fw', 'b2'], c=['fw', 'c2'])
  for picks, decisions, box, failure in explore.explore(reg_run, bound, max_runs=maxruns, root=root):
    n += 1
    det = dict(scenario='reg', schedule=picks, got=box and box.get('msgs'))
    if failure is not None:
      bad.append(('logging threads never finish (%s)' % type(failure).__name__, det))
      continue
    if box['handlers'] != box['want_handlers']:
      bad.append(('a run that started while another run started or ended lost its record handler' if len(box['handlers']) < 2
                  else 'handler of an ended run still installed', det))
    elif box['msgs'] != want:
      bad.append(('a finished record was altered by later logging' if box['msgs']['a'] != want['a']
                  else 'a run\'s own log messages were not captured exactly once in order', det))
  return n, bad[:5]


def work_x(args):
  sys.argv = sys.argv[:1]
  bound, root, maxruns = args
  from vf import explore
  import openhtf  # noqa: F401
  n, bad = 0, []
  for picks, decisions, box, failure in explore.explore(cross_run, bound, max_runs=maxruns, root=root):
    n += 1
    if failure is not None:
      bad.append(('logging threads never finish (%s)' % type(failure).__name__, dict(scenario='cross', schedule=picks)))
    elif box['a'] != ['A1', 'A2'] or box['b'] != ['B1', 'B2']:
      sig = ('a message logged through another test\'s loggers appears in this run\'s record'
             if any(m.startswith('B') for m in box['a']) or any(m.startswith('A') for m in box['b'])
             else 'a run\'s own log messages were not captured exactly once in order')
      bad.append((sig, dict(scenario='cross', schedule=picks, a=box['a'], b=box['b'])))
  return n, bad[:5]


# ----------------------------------------------------------------------
def whole(seed, concurrent):
  from vf import build, sched
  import openhtf as htf
  from openhtf.core import base_plugs
  from openhtf.util import logs
  rng = random.Random(seed)
  s = sched.Sched(policy=sched.RandomPolicy(rng, 0.3) if concurrent else None, max_steps=400000)
  box = dict(recs={}, sent={})

  def main():
    build.reset_process_globals()

    def mk(tag):
      sent = box['sent'].setdefault(tag, [])

      class Plug(base_plugs.BasePlug):
        def hello(self):
          self.logger.warning('%s plug msg', tag)
          sent.append('%s plug msg' % tag)

      def body(test, pl):
        for i in range(2):
          m = '%s phase msg %d' % (tag, i)
          test.logger.warning(m)
          sent.append(m)
          pl.hello()
          uid = [k for k, v in htf.Test.TEST_INSTANCES.items() if v is tests[tag]]
          if uid:
            m = '%s record-logger msg %d' % (tag, i)
            logs.get_record_logger_for(uid[0]).warning(m)
            sent.append(m)
          sched.point('body')
      ph = htf.plug(pl=Plug)(htf.PhaseOptions(name='ph_' + tag)(body))
      t = htf.Test(ph, ph.with_args() if False else htf.PhaseOptions(name='ph2_' + tag)(body).__class__ and ph)
      return t
    tests = {}

    def run(tag):
      t = tests[tag]
      out = []
      t.add_output_callbacks(out.append)
      t.execute()
      box['recs'].setdefault(tag, []).append(out[0])
    if concurrent:
      for tag in ('A', 'B'):
        tests[tag] = mk(tag)
      ths = [threading.Thread(target=run, args=(tag,), name='run' + tag) for tag in ('A', 'B')]
      for t in ths:
        t.start()
      for t in ths:
        t.join()
    else:
      tests['A'] = mk('A')
      run('A')
      box['sent_first'] = list(box['sent']['A'])
      run('A')
    lg = logging.getLogger('openhtf')
    box['handlers'] = len([h for h in lg.handlers if isinstance(h, logs.RecordHandler)])
    logging.getLogger('openhtf.core').warning('after the runs')
  try:
    s.run(main)
  except (sched.Deadlock, sched.StepBudget) as e:
    return ['runs with logging never finish (%s)' % type(e).__name__]
  bad = []
  if box['handlers'] != 0:
    bad.append('record handlers remain installed after the runs ended')
  for tag, recs in box['recs'].items():
    sent = box['sent'][tag]
    if not concurrent:
      chunks = [box['sent_first'], sent[len(box['sent_first']):]]
    else:
      chunks = [sent]
    for rec, want in zip(recs, chunks):
      own = [r.message for r in rec.log_records if ('%s ' % tag) in r.message and ' msg' in r.message]
      if own != want:
        bad.append('a run\'s own log messages were not captured exactly once in order')
      other = 'B' if tag == 'A' else 'A'
      if any(('%s ' % other) in r.message and ' msg' in r.message for r in rec.log_records):
        bad.append('a message logged through another test\'s loggers appears in this run\'s record')
      if any(r.message == 'after the runs' for r in rec.log_records):
        bad.append('a finished record was altered by later logging')
  return bad


def fault_runs(_):
  """the run ends while its output stage fails with something execute() does not swallow: "once the
  run has ended no handler of it remains" at that exit too"""
  sys.argv = sys.argv[:1]
  import openhtf as htf
  from openhtf.util import logs
  from vf import build
  build.reset_process_globals()
  bad = []
  lg = logging.getLogger('openhtf')

  def nhandlers():
    return len([h for h in lg.handlers if isinstance(h, logs.RecordHandler)])
  for exc in (KeyboardInterrupt, SystemExit, GeneratorExit):
    base = nhandlers()
    seen = []

    def cb(rec, exc=exc):
      seen.append(rec)
      raise exc('output callback interrupted')

    def ph(test):
      test.logger.warning('phase msg')
    t = htf.Test(ph)
    t.add_output_callbacks(cb)
    try:
      t.execute()
    except BaseException:  # pylint: disable=broad-except
      pass
    if nhandlers() != base:
      bad.append('record handlers remain installed after a run whose output stage was interrupted')
      for h in list(lg.handlers):
        if isinstance(h, logs.RecordHandler):
          lg.removeHandler(h)
    n0 = len(seen[0].log_records) if seen else 0
    logging.getLogger('openhtf.core').warning('after the interrupted run')
    if seen and len(seen[0].log_records) != n0:
      bad.append('a finished record was altered by later logging')
  return bad


def work_c(args):
  sys.argv = sys.argv[:1]
  from vf import build  # noqa: F401
  seeds, concurrent = args
  bad = []
  for sd in seeds:
    for b in whole(sd, concurrent):
      bad.append((b, dict(seed=sd, concurrent=concurrent)))
  return len(seeds), bad[:6]


# ----------------------------------------------------------------------
class Obj:
  def __str__(self):
    return 'device %s here' % MAC


def shape_call(logger, shape):
  up = MAC.upper()
  if shape == 'literal-in-msg':
    logger.warning('mac is %s ok' % MAC)
  elif shape == 'str-arg':
    logger.warning('mac is %s ok', MAC)
  elif shape == 'upper-case':
    logger.warning('mac is %s ok', up)
  elif shape == 'object-arg':
    logger.warning('seen %s', Obj())
  elif shape == 'tuple-arg':
    logger.warning('pair %s', (MAC, 1))
  elif shape == 'exception-arg':
    logger.warning('failed: %s', ValueError('bad mac %s' % MAC))
  elif shape == 'mapping-arg':
    logger.warning('mac is %(m)s ok', {'m': MAC})
  elif shape == 'followed-by-punctuation':
    logger.warning('mac=%s, next' % MAC)
  elif shape == 'non-str-msg':
    logger.warning(Obj())
  elif shape == 'two-macs':
    logger.warning('%s and %s', MAC, 'aa:bb:cc:dd:ee:ff')
  elif shape == 'no-mac':
    logger.warning('nothing secret %s', 42)


def work_d(table):
  sys.argv = sys.argv[:1]
  from openhtf.core import test_record
  from openhtf.util import logs
  bad = []
  for row in table:
    rec = test_record.TestRecord(dut_id=None, station_id='s')
    uid = UID['ab']
    logs.initialize_record_handler(uid, rec, lambda: None)
    old = logging.raiseExceptions
    logging.raiseExceptions = False
    try:
      shape_call(logs.get_record_logger_for(uid), row['shape'])
    finally:
      logging.raiseExceptions = old
      logs.remove_record_handler(uid)
    msgs = [r.message for r in rec.log_records]
    if (len(msgs) == 1) != row['delivered']:
      bad.append(('redaction: a record logged with a %s shape is dropped' % row['shape'], row))
      continue
    m = msgs[0].lower()
    if ('12:34:56' in m or 'dd:ee:ff' in m) != row['leaks']:
      bad.append(('redaction: a MAC in a %s shape reaches the record unredacted' % row['shape'], dict(row, message=msgs[0])))
    if row['prefix_kept'] and ('f8:8f:ca:<redacted>' not in m):
      bad.append(('redaction: vendor prefix + <REDACTED> missing for shape %s' % row['shape'], dict(row, message=msgs[0])))
  return len(table), bad


def repeat_probe(_):
  """a polling loop logs the same text from the same line several times within one millisecond (the clock is
  pinned): "appended exactly once" is per logging call - every call has its own record"""
  sys.argv = sys.argv[:1]
  import time
  from unittest import mock
  import openhtf as htf
  from openhtf.util import logs
  from vf import build
  build.reset_process_globals()
  bad = []
  sent = []

  def body(test):
    uid = [k for k, v in htf.Test.TEST_INSTANCES.items() if v is t]
    with mock.patch('time.time', return_value=time.time()):
      for _ in range(4):
        test.logger.warning('retrying %s', 'read')
        sent.append('retrying read')
      for _ in range(3):
        logs.get_record_logger_for(uid[0]).info('poll: not ready')
        sent.append('poll: not ready')
  t = htf.Test(htf.PhaseOptions(name='poller')(body))
  out = []
  t.add_output_callbacks(out.append)
  t.execute()
  got = [r.message for r in out[0].log_records if r.message in ('retrying read', 'poll: not ready')]
  if got != sent:
    bad.append('identical messages logged by separate calls (same line, same millisecond) are not all in the record: %d of %d'
               % (len(got), len(sent)))
  return bad


def main(chk):
  res = tlc.must_pass(tlc.run('Logs', 'Logs_mc.cfg', workers=8, heap='6g'), 'Logs design + emit')
  chk.add_tlc('Logs (routing, handler add/remove over histories)', res)
  table = res.prints('TABLE')[0][0]
  w = tlc.must_pass(tlc.run('LogsWalk', 'LogsWalk.cfg', workers=1), 'LogsWalk')
  chk.add_tlc('LogsWalk (copy-on-write removal)', w)
  neg = tlc.run('LogsWalk', 'LogsWalk_inplace.cfg', workers=1)
  if 'LiveRunGetsMessage' not in neg.invariant_violated:
    raise tlc.TLCError('sensitivity: in-place removal should lose the message')
  chk.cov['model_sensitivity'] = 'LogsWalk.tla with InPlace=TRUE violates LiveRunGetsMessage (the walk skips the next handler)'
  quick = chk.tier == 'quick'
  chunks = tlaval.split_prints(res.out, 'HIST', 56)
  with mp.Pool(14, maxtasksperchild=20) as pool:
    for o in pool.map(work_a, chunks):
      chk.traces += o['n']
      chk.nontrivial += o['nontrivial']
      for sig, det in o['bad']:
        chk.violation(sig, det)
      if o['sample']:
        chk.sample(o['sample'])
    chk.log('histories replayed: %d' % chk.traces)
    n, bad = pool.apply(work_b, (3 if quick else 4,))
    chk.traces += n
    chk.nontrivial += n
    chk.tlc_runs.append(dict(name='dfs handler walk vs removal', schedules=n))
    for sig, det in bad:
      chk.violation(sig, det)
    chk.log('handler-walk schedules: %d' % n)
    from vf import explore
    roots = explore.split_roots(cross_run, 1 if quick else 2, 6)
    per = max(50, (6000 if quick else 150000) // max(1, len(roots)))
    tot = 0
    for n, bad in pool.map(work_x, [(1 if quick else 2, r, per) for r in roots], chunksize=1):
      tot += n
      for sig, det in bad:
        chk.violation(sig, det)
    chk.traces += tot
    chk.nontrivial += tot
    chk.tlc_runs.append(dict(name='dfs two runs logging concurrently (statement-level scheduling points in logs.py)', schedules=tot))
    chk.log('cross-run logging schedules: %d' % tot)
    roots = explore.split_roots(reg_run, 1 if quick else 2, 6)
    per = max(50, (6000 if quick else 150000) // max(1, len(roots)))
    tot = 0
    for n, bad in pool.map(work_r, [(1 if quick else 2, r, per) for r in roots], chunksize=1):
      tot += n
      for sig, det in bad:
        chk.violation(sig, det)
    chk.traces += tot
    chk.nontrivial += tot
    chk.tlc_runs.append(dict(name='dfs runs starting / ending concurrently (registration vs registration, removal vs registration)', schedules=tot))
    chk.log('registration/removal schedules: %d' % tot)
    ns = 40 if quick else 600
    jobs = [([chk.seed * 1000 + i for i in range(k, ns, 7)], True) for k in range(7)]
    jobs += [([chk.seed * 1000 + i for i in range(3)], False)]
    for n, bad in pool.map(work_c, jobs):
      chk.traces += n
      chk.nontrivial += n
      for sig, det in bad:
        chk.violation(sig, det)
    for sig in pool.apply(fault_runs, (0,)):
      chk.violation(sig, dict(scenario='interrupted output stage'))
    for sig in pool.apply(repeat_probe, (0,)):
      chk.violation(sig, dict(scenario='polling loop'))
    chk.traces += 1
    chk.traces += 3
    n, bad = pool.apply(work_d, (table,))
    chk.traces += n
    for sig, det in bad:
      chk.violation(sig, det)
  chk.cov['rule'] = ('histories of <=5 start/end/log operations over 2 prefix-related uids x 10 logger names (TLC-enumerated); all interleavings with <=2 (3) preemptions of a framework log call vs handler removal; '
                     'two threads logging through two live runs with every statement of logs.py a scheduling point (<=1 / 2 preemptions); seeded random schedules of two concurrent whole runs; 11 redaction shapes')
  chk.assumptions += ['uids contain no "." (make_uid never produces one)',
                      'the locks of logging are scheduling points in the handler-walk exploration']
  return chk.finish(explanation='Logs.tla / LogsWalk.tla checked by TLC; emitted histories replayed on the real logs functions; real '
                    'handler removal explored against a concurrent log call; whole runs; redaction table', exhaustive=True)


def replay(path):
  with open(path) as fh:
    sc = json.load(fh)['scenario']
  sys.argv = sys.argv[:1]
  import openhtf  # noqa: F401
  if 'history' in sc:
    bad = replay_history(sc['history'], sc['captured'])
    if bad:
      print('VIOLATION property=C19 replay=%s\n  what: %s' % (path, bad[0]))
      return 1
    print('replay: history conforms')
    return 0
  print('re-run ./check C19 --tier quick')
  return 2
