"""C02 - node execution follows docs/event_sequence.md.  Spec: Executor.tla is
the executable reading of the document; the property is conformance: bodies
invoked (order, multiplicity), cumulative record counts seen at each body
start, and the phase/subtest/branch/checkpoint record lists must equal the
model's for every program and behaviour assignment."""
from checks import execlib

OWNED = {'calls': 'bodies', 'record_timing': 'records written at the wrong moment',
         'phase_records': 'phase records', 'subtests': 'subtest records',
         'branches': 'branch records', 'checkpoints': 'checkpoint records',
         'no_return': 'execute() did not return', 'executor_crash': 'executor thread failed'}


def families(tier):
  if tier == 'quick':
    return [('structure4', execlib.fam_structure(4, 'PQUG', 'CFXE')),
            # every way a node can end terminal: STOP, exception, listed failure exception, a return value
            # that is no PhaseResult (truthy and falsy)
            ('terminal-kinds3', execlib.fam_structure(3, 'PQUG', 'CSGIJ', minn=1)),
            ('branches2', execlib.fam_branches(2, range(8))),
            ('branches3', execlib.fam_branches(3, (0, 3))),
            ('teardown-nesting', execlib.fam_teardown_nesting()),
            ('checkpoint-context', execlib.fam_checkpoint_context())]
  return [('structure5', execlib.fam_structure(5, 'PQUG', 'CFXE')),
          ('terminal-kinds4', execlib.fam_structure(4, 'PQUG', 'CSGIJ', minn=1)),
          ('branches3', execlib.fam_branches(3, range(8))),
          ('branches4', execlib.fam_branches(4, (1, 6), kinds='PBKU')),
          ('groups-abort', execlib.fam_groups(4, 'CEA')),
          ('teardown-nesting', execlib.fam_teardown_nesting()),
          ('checkpoint-context', execlib.fam_checkpoint_context())]


def main(chk):
  execlib.run_families(chk, families(chk.tier), OWNED)
  chk.cov['rule'] = ('all node trees up to the size bound x all behaviour assignments, enumerated by TLC; '
                     'non-trivial = at least two invocations or one record')
  return chk.finish(explanation='Executor.tla (executable reading of docs/event_sequence.md) vs the real '
                    'executor: bodies, their order/multiplicity, cumulative record counts and the four '
                    'record lists compared per scenario', exhaustive=True)


def replay(path):
  return execlib.replay_file(path, OWNED, 'C02', families)
