"""C11 - runs are isolated: descriptors are never mutated, derived phases are
copies.  Spec: specs/Isolation.tla (heap of descriptor values; derive /
decorate / nest / execute operations; NoMutationOfOperands).

A. TLC enumerates every history of <= 4 (quick) / 5 (thorough) operations;
   each is replayed on real phase objects; after EVERY operation every object
   created so far is re-projected (public attributes, recursively) and compared
   with the model's value, and a deep structural fingerprint of every object is
   compared with the one taken when it was created.
B. one Test executed three times: every run starts from UNSET measurements, an
   empty state dict and diagnoses store, and its record depends only on that run.
C. two tests sharing phase objects executing concurrently under seeded random
   schedules: no cross-talk in measurements, attachments, state dict,
   diagnoses, records."""
import json
import multiprocessing as mp
import random
import sys
import threading

from vf import common, tlaval, tlc


CALLS = []     # what the base phases were called with: (function name, x, y, names of the other arguments)


def base1(test, x=0, y=0, **plugs):
  """first base phase"""
  CALLS.append(('base1', x, y, sorted(plugs)))
  return None


def base2(test, x=0, y=0, **plugs):
  """second base phase"""
  CALLS.append(('base2', x, y, sorted(plugs)))
  return None


def fingerprint(o, depth=0, seen=None):
  """identity-insensitive deep structural snapshot over attrs fields / containers"""
  import attr
  import enum
  if seen is None:
    seen = set()
  if depth > 8:
    return '...'
  if isinstance(o, (str, int, float, bool, type(None), bytes)):
    return o
  if isinstance(o, enum.Enum):
    return 'enum:%s' % o.name
  if id(o) in seen:
    return 'cycle'
  seen = seen | {id(o)}
  if isinstance(o, dict):
    return {str(k): fingerprint(v, depth + 1, seen) for k, v in sorted(o.items(), key=lambda kv: str(kv[0]))}
  if isinstance(o, (list, tuple)):
    return [fingerprint(v, depth + 1, seen) for v in o]
  if isinstance(o, (set, frozenset)):
    return sorted(str(fingerprint(v, depth + 1, seen)) for v in o)
  if attr.has(type(o)):
    return {'__cls__': type(o).__name__,
            **{f.name: fingerprint(getattr(o, f.name, None), depth + 1, seen) for f in attr.fields(type(o))
               if f.name not in ('func_location', 'code_info', '_cached', 'cached')}}
  if callable(o):
    return 'callable:%s' % getattr(o, '__name__', type(o).__name__)
  return 'obj:%s' % type(o).__name__


def project(o):
  """the abstract value of a real object"""
  from openhtf.core import phase_collections, phase_group
  if isinstance(o, phase_group.PhaseGroup):
    return dict(k='group', ch=[project(c) for c in list(o.main.nodes) + list(o.teardown.nodes)])
  if isinstance(o, phase_collections.PhaseSequence):
    return dict(k='seq', ch=[project(c) for c in o.nodes])
  from openhtf.core import base_plugs
  ph = 'na'
  for p in o.plugs:
    if p.name == 'ph':
      ph = 'none' if isinstance(p.cls, base_plugs.PlugPlaceholder) else p.cls.__name__.lower()
  return dict(k='phase', base=1 if o.func is base1 else 2,
              name='' if o.name in ('base1', 'base2') else o.name,
              args=sorted(o.extra_kwargs), meas=[m.name for m in o.measurements],
              ndiag=len(o.diagnosers), plugs=sorted(p.name for p in o.plugs if p.name != 'ph'),
              timeout=o.options.timeout_s or 0, ph=ph)


def _phases_of(o):
  from openhtf.core import phase_collections, phase_group
  if isinstance(o, phase_group.PhaseGroup):
    return [p for part in (o.setup, o.main, o.teardown) if part is not None for p in _phases_of(part)]
  if isinstance(o, phase_collections.PhaseSequence):
    return [p for n in o.nodes for p in _phases_of(n)]
  return [o]


def _mutable_parts(ph):
  return [(f, getattr(ph, f)) for f in ('options', 'measurements', 'plugs', 'diagnosers', 'extra_kwargs')]


def norm(v):
  if v['k'] == 'phase':
    return dict(v, args=sorted(v['args']), plugs=sorted(v['plugs']), meas=list(v['meas']))
  return dict(k=v['k'], ch=[norm(c) for c in v['ch']])


def replay_history(hist):
  import openhtf as htf
  from openhtf.core import base_plugs, diagnoses_lib, phase_collections, phase_descriptor
  from vf import build
  bad = []
  objs, values, prints = [], [], []

  class PA(base_plugs.BasePlug):
    pass

  class PB(base_plugs.BasePlug):
    pass
  plugcls = {'pa': PA, 'pb': PB}

  class PH(base_plugs.BasePlug):
    pass

  class PHA(PH):
    pass

  class PHB(PH):
    pass

  def diag_fn(phase_record):
    return None
  for step, (op, val) in enumerate(hist):
    name = op[0]
    new = None
    if name == 'wrap':
      new = phase_descriptor.PhaseDescriptor.wrap_or_copy(base1) if op[1] == 1 else htf.plug(ph=PH.placeholder)(base2)
    elif name == 'with_args':
      new = objs[op[1] - 1].with_args(**{op[2]: 7})
    elif name == 'options':
      kw = {}
      if op[2]:
        kw['name'] = op[2]
      if op[3]:
        kw['timeout_s'] = op[3]
      new = htf.PhaseOptions(**kw)(objs[op[1] - 1])
    elif name == 'measures':
      new = htf.measures(htf.Measurement(op[2]).in_range(0, 10))(objs[op[1] - 1])
    elif name == 'diagnose':
      new = htf.diagnose(diagnoses_lib.PhaseDiagnoser(build.R, name='dg', run_func=diag_fn))(objs[op[1] - 1])
    elif name == 'plug':
      new = htf.plug(**{op[2]: plugcls[op[2]]})(objs[op[1] - 1])
    elif name == 'with_plugs':
      new = objs[op[1] - 1].with_plugs(ph={'pha': PHA, 'phb': PHB}[op[2]])
    elif name == 'seq':
      new = phase_collections.PhaseSequence((objs[op[1] - 1], objs[op[2] - 1]))
    elif name == 'group':
      new = htf.PhaseGroup(main=[objs[op[1] - 1]], teardown=[objs[op[2] - 1]])
    elif name == 'coll_with_args':
      new = objs[op[1] - 1].with_args(**{op[2]: 7})
    elif name == 'execute':
      o = objs[op[1] - 1]
      t = htf.Test(o)
      out = []
      t.add_output_callbacks(out.append)
      build.CONF.load(allow_unset_measurements=True, _override=True)
      del CALLS[:]
      try:
        t.execute()
      finally:
        build.CONF.load(allow_unset_measurements=False, _override=True)
      if not out or out[0].outcome.name != 'PASS':
        bad.append('executing a derived object did not PASS (%s)' % (out and out[0].outcome.name))
      else:
        # every phase is called with its own arguments: the defaults of the function overridden by what this very
        # descriptor was given with with_args() - whatever other derivations of the same function were run before
        want = [(ph_.func.__name__, ph_.extra_kwargs.get('x', 0), ph_.extra_kwargs.get('y', 0),
                 sorted(pl.name for pl in ph_.plugs if pl.update_kwargs)) for ph_ in _phases_of(o)]
        if CALLS != want:
          bad.append('executing a derived object called its phases with other arguments than their own')
    if new is not None:
      if any(new is o for o in objs):
        bad.append('%s returned its operand instead of a copy' % name)
      # a copy owns its options object and its containers: sharing one of them with an existing
      # object means that modifying the copy in place changes the object it was derived from
      mine = {id(x): f for ph_ in _phases_of(new) for f, x in _mutable_parts(ph_)}
      for o in objs:
        for ph_ in _phases_of(o):
          for f, x in _mutable_parts(ph_):
            if id(x) in mine:
              bad.append('%s: the new object shares its %s with an existing object (not a copy)' % (name, f))
      objs.append(new)
      values.append(norm(val))
      prints.append(fingerprint(new))
      got = norm(project(new))
      if got != norm(val):
        bad.append('%s produced %s, model says %s' % (name, got, norm(val)))
    # no operation changes any object created so far
    for i, o in enumerate(objs):
      if norm(project(o)) != values[i]:
        bad.append('%s changed the value of an object it was derived from / that already existed' % name)
        values[i] = norm(project(o))
      elif fingerprint(o) != prints[i]:
        bad.append('%s mutated the structure of an object that already existed' % name)
        prints[i] = fingerprint(o)
  return bad


def work_a(text):
  sys.argv = sys.argv[:1]
  from vf import build  # noqa: F401
  out = dict(n=0, bad=[], nontrivial=0, sample=None)
  for (hist,) in tlaval.parse_many(text, 'HIST'):
    out['n'] += 1
    if sum(1 for h in hist if h[0][0] != 'wrap') >= 2:
      out['nontrivial'] += 1
    bad = replay_history(hist)
    if bad and len(out['bad']) < 6:
      import re
      out['bad'].append((re.sub(r' produced .*', ' produced another value than the model', bad[0])[:140],
                         dict(history=[h[0] for h in hist], detail=bad[0])))
    if out['sample'] is None and len(hist) >= 4 and hist[-1][0][0] != 'wrap':
      out['sample'] = [h[0] for h in hist]
  return out


# ----------------------------------------------------------------------
def repeated_runs(_):
  sys.argv = sys.argv[:1]
  import openhtf as htf
  from openhtf.core import diagnoses_lib
  from openhtf.util import validators
  from vf import build
  bad = []
  seen_state = []

  def run_fn(pr):
    return htf.Diagnosis(build.R.a, 'd') if runs[0] == 1 else None
  dg = diagnoses_lib.PhaseDiagnoser(build.R, name='dg', run_func=run_fn)
  runs = [0]

  @htf.diagnose(dg)
  def p0(test):
    pass

  @htf.measures(htf.Measurement('m').in_range(0, 100), htf.Measurement('d').with_dimensions('x'),
                htf.Measurement('c').validate_on({build.R.a: validators.in_range(0, 5)}))
  def p(test):
    seen_state.append((dict(test.state), test.diagnoses_store.has_diagnosis_result(build.R.a),
                       test.get_measurement('m').outcome.name if test.get_measurement('m') else None))
    test.state['run'] = runs[0]
    test.test_record.metadata['station_info']['ops'].append(runs[0])    # in-place edit of a nested metadata value
    test.measurements.c = 50      # violates the conditional validator, which applies in run 1 only
    if runs[0] != 2:
      test.measurements.m = runs[0]
      test.measurements.d[runs[0]] = runs[0]
      test.attach('att', b'run%d' % runs[0])
  from openhtf.core import base_plugs
  made = []

  class TriggerPlug(base_plugs.BasePlug):
    def __init__(self):
      made.append(('trigger', runs[0]))

  class PhasePlug(base_plugs.BasePlug):
    def __init__(self):
      made.append(('phase', runs[0]))

  @htf.plug(tp=TriggerPlug)
  def trigger(test, tp):
    test.dut_id = 'dut'

  @htf.plug(pp=PhasePlug)
  def pq(test, pp):
    pass
  fp0 = (fingerprint(p), fingerprint(p0))
  t = htf.Test(p0, p, pq, station_info={'ops': []})
  fpt0 = fingerprint(t.descriptor.phase_sequence)
  plug_types0 = sorted(x.__name__ for x in t.descriptor.plug_types)
  recs = []
  t.add_output_callbacks(recs.append)
  build.CONF.load(allow_unset_measurements=True, _override=True)
  try:
    for r in (1, 2, 3):
      runs[0] = r
      if r == 1:
        t.execute(test_start=trigger)      # only the first run is started by a trigger phase with its own plug
      else:
        t.execute()
      if t.descriptor.metadata['station_info'] != {'ops': []}:
        bad.append('a run changed the metadata the test was declared with')
        t.descriptor.metadata['station_info'] = {'ops': []}
      if sorted(x.__name__ for x in t.descriptor.plug_types) != plug_types0:
        bad.append('executing a test changed the set of plug types of its descriptor')
      if (fingerprint(p), fingerprint(p0)) != fp0 or fingerprint(t.descriptor.phase_sequence) != fpt0:
        bad.append('executing a test mutated the phases / measurements / validators / node tree it was declared with')
  finally:
    build.CONF.load(allow_unset_measurements=False, _override=True)
  if sorted(made) != [('phase', 1), ('phase', 2), ('phase', 3), ('trigger', 1)]:
    bad.append('plugs constructed in a run depend on an earlier run (%s)' % sorted(made))
  for r, (state, had_diag, m_oc) in zip((1, 2, 3), seen_state):
    if state:
      bad.append('a run started with a non-empty state dict')
    if had_diag != (r == 1):
      bad.append('a run started with a diagnosis from an earlier run in its store')
    if m_oc != 'UNSET':
      bad.append('a run started with a measurement that was not UNSET')
  ph = [[x for x in r.phases if x.name == 'p'][0] for r in recs]
  if [x.measurements['c'].outcome.name for x in ph] != ['FAIL', 'PASS', 'PASS']:
    bad.append('a conditional validator of an earlier run decided the measurement of a later run (%s)'
               % [x.measurements['c'].outcome.name for x in ph])
  m2 = ph[1].measurements
  if m2['m'].outcome.name != 'UNSET' or m2['d'].measured_value.is_value_set or ph[1].attachments:
    bad.append('the record of a run contains values of an earlier run')
  if ph[2].measurements['m'].measured_value.value != 3 or \
     [tuple(x) for x in ph[2].measurements['d'].measured_value.value] != [(3, 3)]:
    bad.append('the record of a run contains values of an earlier run')
  if [r.metadata['station_info']['ops'] for r in recs] != [[1], [2], [3]]:
    bad.append('the metadata of a run\'s record contains what another run wrote (%s)'
               % [r.metadata['station_info']['ops'] for r in recs])
  if [len(r.diagnoses) for r in recs] != [1, 0, 0]:
    bad.append('diagnoses of one run appear in another run\'s record')
  return bad


def plug_fault_runs(_):
  """a run that ends because a plug constructor raises must not change what later runs see
  ("every run ... producing a record that depends only on that run"; "never mutates the ... plugs")"""
  sys.argv = sys.argv[:1]
  import openhtf as htf
  from openhtf.core import base_plugs
  bad = []
  state = dict(fail=False)

  class FlakyPlug(base_plugs.BasePlug):
    def __init__(self):
      if state['fail']:
        raise RuntimeError('plug constructor raises in this run')

  @htf.plug(fp=FlakyPlug)
  def ph(test, fp):
    pass

  def trig():
    return 'dut'
  logger0 = FlakyPlug.logger
  outcomes = []
  for where in ('phases', 'trigger'):
    t = htf.Test(ph) if where == 'phases' else htf.Test(htf.PhaseOptions(name='other')(lambda test: None))
    start = trig if where == 'phases' else htf.plug(fp=FlakyPlug)(lambda test, fp: None)
    recs = []
    t.add_output_callbacks(recs.append)
    for fail in (False, True, False):
      state['fail'] = fail
      t.execute(test_start=start)
      state['fail'] = False
      if FlakyPlug.logger is not logger0:
        bad.append('a run in which a plug constructor raised changed the plug class it was declared with')
        FlakyPlug.logger = logger0
    outcomes.append([r.outcome.name for r in recs])
  if any(o != ['PASS', 'ERROR', 'PASS'] for o in outcomes):
    bad.append('the run after one whose plug constructor raised does not behave like the run before it (%s)' % outcomes)
  return bad


def concurrent_runs(seeds):
  sys.argv = sys.argv[:1]
  import openhtf as htf
  from openhtf.core import diagnoses_lib
  from vf import build, sched
  bad = []
  for sd in seeds:
    s = sched.Sched(policy=sched.RandomPolicy(random.Random(sd), 0.3), max_steps=400000)
    box = {}

    def main():
      build.reset_process_globals()
      tag_of = {}

      def run_fn(pr):
        tag = pr.measurements['who'].measured_value.value
        return htf.Diagnosis(build.R.a if tag == 'A' else build.R.b, 'by %s' % tag)
      dg = diagnoses_lib.PhaseDiagnoser(build.R, name='dg', run_func=run_fn)

      from openhtf.core import base_plugs

      class Own(base_plugs.BasePlug):
        """per-run plug: each run has its own instance, torn down when that run ends"""

        def __init__(self):
          self.owner = None
          self.torn = False

        def tearDown(self):
          self.torn = True

      @htf.plug(own=Own)
      @htf.diagnose(dg)
      @htf.measures(htf.Measurement('who'), htf.Measurement('val'), htf.Measurement('dim').with_dimensions('i'))
      def shared(test, own):
        tag = tag_of[threading.current_thread().name.split(':')[0]] if False else test.state.get('tag')
        tag = box['tags'][id(test.test_record)]
        if own.owner is None:
          own.owner = tag
        test.state['tag'] = tag
        test.measurements.who = tag
        for i in range(3):
          sched.point('body')
          test.measurements.val = '%s%d' % (tag, i)
          test.measurements.dim[i] = '%s%d' % (tag, i)
        test.attach('att', ('data of %s' % tag).encode())
        test.logger.warning('phase-log-from-%s', tag)

      @htf.plug(own=Own)
      def second(test, own):
        box.setdefault('own_seen', {})[box['tags'][id(test.test_record)]] = (own.owner, own.torn, id(own))
        box.setdefault('state_seen', {})[box['tags'][id(test.test_record)]] = dict(test.state)
        box.setdefault('diag_seen', {})[box['tags'][id(test.test_record)]] = (
            test.diagnoses_store.has_diagnosis_result(build.R.a), test.diagnoses_store.has_diagnosis_result(build.R.b))
      box['tags'] = {}

      def start(tag):
        def trigger(test):
          box['tags'][id(test.test_record)] = tag
          test.dut_id = 'dut' + tag
        return trigger
      tests = {tag: htf.Test(shared, second) for tag in 'AB'}
      recs = {}

      def run(tag):
        out = []
        tests[tag].add_output_callbacks(out.append)
        try:
          tests[tag].execute(test_start=htf.PhaseOptions(name='trigger' + tag)(start(tag)))
        except Exception as e:  # pylint: disable=broad-except
          box.setdefault('raised', {})[tag] = type(e).__name__
        recs[tag] = out[0] if out else None
      ths = [threading.Thread(target=run, args=(tag,), name='run' + tag) for tag in 'AB']
      for t in ths:
        t.start()
      for t in ths:
        t.join()
      box['recs'] = recs
    try:
      s.run(main)
    except (sched.Deadlock, sched.StepBudget) as e:
      bad.append(('two concurrent tests never finish (%s)' % type(e).__name__, dict(seed=sd)))
      continue
    for tag, other in (('A', 'B'), ('B', 'A')):
      rec = box['recs'].get(tag)
      if rec is None or not [p for p in rec.phases if p.name == 'shared'] or tag not in box.get('state_seen', {}):
        bad.append(('one of two concurrently executing tests did not complete its phases (execute() %s)'
                    % ('raised ' + box['raised'][tag] if tag in box.get('raised', {}) else 'produced no complete record'),
                    dict(seed=sd)))
        continue
      ph = [p for p in rec.phases if p.name == 'shared'][0]
      vals = [ph.measurements['who'].measured_value.value, ph.measurements['val'].measured_value.value] + \
          [v for _, v in ph.measurements['dim'].measured_value.value_dict.items()]
      if any(str(v).startswith(other) for v in vals) or rec.dut_id != 'dut' + tag:
        bad.append(('a concurrently executing test saw the other test\'s measurements / record', dict(seed=sd)))
      if ph.attachments['att'].data != ('data of %s' % tag).encode():
        bad.append(('a concurrently executing test saw the other test\'s attachment', dict(seed=sd)))
      own = box.get('own_seen', {})
      if rec.outcome is None or rec.outcome.name != 'PASS' or tag not in own or own[tag][:2] != (tag, False) or \
          (other in own and own[other][2] == own[tag][2]):
        bad.append(('a concurrently executing test used / tore down the other test\'s plug instance', dict(seed=sd)))
        continue
      if box['state_seen'][tag] != {'tag': tag}:
        bad.append(('a concurrently executing test saw the other test\'s state dict', dict(seed=sd)))
      want = (True, False) if tag == 'A' else (False, True)
      if box['diag_seen'][tag] != want or [d.result.value for d in rec.diagnoses] != ['a' if tag == 'A' else 'b']:
        bad.append(('a concurrently executing test saw the other test\'s diagnoses', dict(seed=sd)))
      if any(('phase-log-from-%s' % other) in r.message for r in rec.log_records):
        bad.append(('a concurrently executing test captured the other test\'s phase log', dict(seed=sd)))
      if sum(1 for r in rec.log_records if ('phase-log-from-%s' % tag) in r.message) != 1:
        bad.append(('the record of a concurrently executing test does not hold its own phase log exactly once', dict(seed=sd)))
  return len(seeds), bad[:6]


def main(chk):
  quick = chk.tier == 'quick'
  cfg = open('specs/Isolation_mc.cfg').read()
  if not quick:
    cfg = cfg.replace('MaxOps = 4', 'MaxOps = 5').replace('MaxObjs = 4', 'MaxObjs = 4')
  res = tlc.must_pass(tlc.run('Isolation', cfg, workers=8, heap='8g', timeout=3000), 'Isolation design + emit')
  chk.add_tlc('Isolation', res)
  with mp.Pool(14, maxtasksperchild=20) as pool:
    for o in pool.map(work_a, tlaval.split_prints(res.out, 'HIST', 112)):
      chk.traces += o['n']
      chk.nontrivial += o['nontrivial']
      for sig, det in o['bad']:
        chk.violation(sig, det)
      if o['sample']:
        chk.sample(dict(part='derive/execute history', ops=o['sample']))
    chk.log('%d derive/decorate/execute histories replayed' % chk.traces)
    for sig in pool.apply(repeated_runs, (0,)):
      chk.violation(sig, {})
    for sig in pool.apply(plug_fault_runs, (0,)):
      chk.violation(sig, {})
    chk.traces += 6
    ns = 42 if quick else 700
    seeds = [chk.seed * 1000 + i for i in range(ns)]
    for n, bad in pool.map(concurrent_runs, [seeds[k::14] for k in range(14)]):
      chk.traces += n
      chk.nontrivial += n
      for sig, det in bad:
        chk.violation(sig, det)
    chk.log('%d concurrent double runs' % ns)
    # "a record that depends only on that run": one run ends (its record handler is taken off the shared logger)
    # while another run's log call is being dispatched - the run/end walk of the C19 check (Logs.tla / LogsWalk.tla),
    # judged here on "the other run's record is unaffected"
    from checks import c19
    n, bad = pool.apply(c19.work_b, (3 if quick else 4,))
    chk.traces += n
    chk.nontrivial += n
    chk.tlc_runs.append(dict(name='dfs one run ends while another logs', schedules=n))
    for sig, det in bad:
      if 'lost a framework log record' in sig:
        chk.violation('the record of a running test depends on another test: a log line is missing from it because the '
                      'other test ended at that moment', det)
  chk.cov['rule'] = ('all histories of <=4 (5) wrap / with_args / PhaseOptions / measures / diagnose / plug / sequence / group / '
                     'collection.with_args / execute operations over <=4 objects (TLC-enumerated); one Test executed three times; '
                     'two tests sharing a phase object executed concurrently under seeded random schedules')
  chk.assumptions += ['the structural fingerprint walks attrs fields, lists, dicts and sets (identity-insensitive); cached '
                      'renderings and code_info are excluded']
  return chk.finish(explanation='Isolation.tla checked by TLC; every emitted history replayed on real descriptors with every '
                    'object re-projected and fingerprinted after every operation; repeated and concurrent runs', exhaustive=True)


def replay(path):
  print('re-run ./check C11 --tier quick')
  return 2
