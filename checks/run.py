"""Entry point: ./check <ID> [--tier quick|thorough] [--replay FILE]."""
import argparse
import importlib
import os
import sys
import traceback

from vf import common, tlc


def main():
  import faulthandler
  import signal
  faulthandler.register(signal.SIGUSR1, all_threads=True)   # kill -USR1 <pid> dumps every thread
  ap = argparse.ArgumentParser()
  ap.add_argument('pid')
  ap.add_argument('--tier', default=os.environ.get('VERIF_TIER', 'quick'),
                  choices=['quick', 'thorough'])
  ap.add_argument('--replay')
  a = ap.parse_args()

  def _stalled(signum, frame):
    faulthandler.dump_traceback(all_threads=True)
    print('MACHINERY-FAILURE property=%s check exceeded its wall-clock budget' % a.pid, flush=True)
    os._exit(2)
  signal.signal(signal.SIGALRM, _stalled)
  signal.alarm(2400 if a.tier == 'quick' else 6 * 3600)
  seed = int(os.environ.get('VERIF_SEED', '0') or 0)
  sys.argv = sys.argv[:1]   # openhtf parses argv at import
  # Pool workers must not be forked from this (multi-threaded) process: a worker
  # forked while another thread is inside subprocess.Popen inherits the write
  # ends of TLC's pipes, and Popen / communicate() then wait for an EOF that only
  # comes when that worker exits (seen as a rare hang with TLC blocked on a full
  # stdout pipe).  The fork server is single-threaded and holds none of our fds.
  import multiprocessing
  multiprocessing.set_start_method('forkserver')
  try:
    mod = importlib.import_module('checks.%s' % a.pid.lower())
  except ImportError:
    traceback.print_exc()
    common.machinery_failure(a.pid, 'no check module')
  try:
    if a.replay:
      rc = mod.replay(a.replay)
    else:
      rc = mod.main(common.Check(a.pid, a.tier, seed))
  except tlc.TLCError as e:
    print(str(e)[-6000:])
    common.machinery_failure(a.pid, 'TLC failure')
  except Exception:  # pylint: disable=broad-except
    traceback.print_exc()
    common.machinery_failure(a.pid, 'harness exception')
  sys.exit(rc)


if __name__ == '__main__':
  main()
