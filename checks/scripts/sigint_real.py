"""Real threads, real SIGINT (no scheduler): an operator's Ctrl-C arrives while
execute() is blocked waiting for the executor thread.  Prints one JSON object.

usage: sigint_real.py {teardown|main}
  teardown: the signal arrives while a teardown phase runs (not killed by a single abort)
  main:     the signal arrives while a main phase body runs (killed)"""
import json
import os
import signal
import sys
import threading
import time

sys.argv, where = sys.argv[:1], sys.argv[1]
import openhtf as htf  # noqa: E402

from openhtf.core import base_plugs  # noqa: E402

entered, release = threading.Event(), threading.Event()
main_ident = threading.get_ident()
plug_events = []


class SlowTearDownPlug(base_plugs.BasePlug):

  def tearDown(self):
    plug_events.append('td-begin')
    time.sleep(0.3)
    plug_events.append('td-end')



@htf.plug(pl=SlowTearDownPlug)
def blocker(test, pl):
  entered.set()
  t0 = time.time()
  while not release.is_set() and time.time() - t0 < 10:
    time.sleep(0.01)


def quick(test):
  pass


def td_quick(test):
  pass


seen = []


def cb(rec):
  seen.append(dict(oc=rec.outcome.name if rec.outcome else None, end=bool(rec.end_time_millis),
                   plug_td=list(plug_events),
                   phases=[[p.name, p.outcome.name if p.outcome else None, bool(p.end_time_millis)] for p in rec.phases]))


if where == 'teardown':
  test = htf.Test(htf.PhaseGroup(main=[quick], teardown=[blocker]))
else:
  test = htf.Test(htf.PhaseGroup(main=[blocker], teardown=[td_quick]))
test.add_output_callbacks(cb)


def sender():
  entered.wait(20)
  # wait until the main thread is really blocked inside Thread.join()
  for _ in range(2000):
    f = sys._current_frames().get(main_ident)
    names = []
    while f is not None:
      names.append(f.f_code.co_name)
      f = f.f_back
    if 'join' in names and 'wait' in names:
      break
    time.sleep(0.005)
  time.sleep(0.05)
  os.kill(os.getpid(), signal.SIGINT)
  time.sleep(0.5)
  release.set()


threading.Thread(target=sender, daemon=True).start()
out = dict(where=where)
try:
  out['ret'] = repr(test.execute(test_start=lambda: 'dut'))
except KeyboardInterrupt:
  out['ret'] = 'KeyboardInterrupt'
except BaseException as e:  # pylint: disable=broad-except
  out['ret'] = 'raised %s' % type(e).__name__
out['callbacks'] = seen
out['state_left'] = test.state is not None
out['registered'] = any(v is test for v in htf.Test.TEST_INSTANCES.values())
print('RESULT ' + json.dumps(out))
