"""C09 - execute() hands a complete, final record to every callback exactly
once.  Spec: specs/Lifecycle.tla (one Test object across a history of
execute() calls) + the tail of Executor.tla.

TLC checks NoLeak / CallbacksInOrder / AllCallbacksAtEnd /
OverlapDisturbsNothing / ReturnIffPass and emits every history of execute()
calls (exit path x raising-callback subset x overlapping call x dut id); each
history is replayed on ONE real Test object; every callback snapshots the
record it is handed; after every call the public state is inspected."""
import copy
import json
import logging
import multiprocessing as mp
import sys

from vf import common, tlaval, tlc

PATH_SCRIPT = {
    'pass': dict(st='C', p1='C', p2='C', t1='C'),
    'fail': dict(st='C', p1='F', p2='C', t1='C'),
    'fail_unset': dict(st='C', p1='C', p2='C', t1='C'),
    'stop': dict(st='C', p1='C', p2='S', t1='C'),
    'error': dict(st='C', p1='E'),
    'start_terminal': dict(st='E'),
    'plug_fail': dict(st='C'),
    'timeout': dict(st='C', p1='C', p2='T', t1='C'),
    'abort': dict(st='C', p1='C', p2='A', t1='C'),
}
NEEDS_SCHED = {'timeout', 'abort', 'sigint'}


class CbError(Exception):
  pass


def run_history(hist, use_sched):
  from vf import build  # import openhtf outside any scheduler run
  del build
  if not use_sched:
    return _run_history(hist)
  from vf import sched
  box = {}

  def main():
    box['r'] = _run_history(hist)
  s = sched.Sched()
  try:
    s.run(main)
  except (sched.Deadlock, sched.StepBudget) as e:
    return [('execute() did not return', dict(detail=str(e)))]
  return box.get('r', [('execute() did not return', dict(detail='main thread died'))])


def _run_history(hist):
  from vf import build
  from vf.progs import beh, group, phase, program
  import openhtf as htf
  from openhtf.core import test_descriptor
  from openhtf.util import logs
  bad = []
  prog = program([phase('p1', beh('CFE'), plugs=('x',)),
                  group('g1', [], [phase('p2', beh('CSTA'))], [phase('t1', beh('C'))])],
                 start=phase('st', beh('CE')))
  state = dict(run=0, cur=None, cbs=[], overlap=None, plug_bad=False)
  ctx = build.Ctx({})

  try:
    build.CONF.declare('verif_c09_limits', default_value=None)
  except Exception:  # pylint: disable=broad-except
    pass   # declared by an earlier history in this worker
  kept = []

  def body_hook(ctx_, name, test_api, b):
    cur = state['cur']
    if name in ('st', 'p1'):
      # the station's live configuration value is modified in place while the test runs: the record's
      # "configuration snapshot" is the configuration at execute() time
      build.CONF.verif_c09_limits['seen'].append(name)
    if name == 'p1' and cur['path'] != 'fail_unset':
      test_api.measurements.dd[0] = 1      # in path fail_unset the dimensioned measurement stays UNSET
    if name == 'st':
      if cur['dut']:
        test_api.dut_id = 'DUT%d' % state['run']
      if cur['overlap'] == 'start':
        try:
          ctx.test.execute()
          state['overlap'] = 'accepted'
        except test_descriptor.InvalidTestStateError:
          state['overlap'] = 'refused'
        except Exception as e:  # pylint: disable=broad-except
          state['overlap'] = 'raised %s' % type(e).__name__
  ctx.hooks['body'] = body_hook
  test, start = build.make_test(ctx, prog, timeout_s=5)
  for p in test.descriptor.phase_sequence.all_phases():
    if p.name == 'p1':
      p.measurements.append(htf.Measurement('dd').with_dimensions('x'))
  # dynamic constructor fault for plug x
  xcls = None
  for p in test.descriptor.phase_sequence.all_phases():
    for pl in p.plugs:
      xcls = pl.cls
  orig_init = xcls.__init__

  def init(self):
    if state['plug_bad']:
      raise build.PlugCtorError('constructor raises in this run')
    orig_init(self)
  xcls.__init__ = init

  def make_cb(i):
    def cb(rec):
      st_obj = test.state
      snap = dict(i=i, rid=id(rec), oc=rec.outcome.name if rec.outcome else None,
                  end=rec.end_time_millis, start=rec.start_time_millis, dut=rec.dut_id,
                  name=rec.metadata.get('test_name'), has_conf='config' in rec.metadata,
                  conf=copy.deepcopy((rec.metadata.get('config') or {}).get('verif_c09_limits')),
                  running=(st_obj.running_phase_state is not None) if st_obj else None,
                  finalized=st_obj.is_finalized if st_obj else None,
                  phases=[dict(name=p.name, oc=p.outcome.name if p.outcome else None,
                               res=build.result_kind(p.result), has_opts=p.options is not None,
                               s=p.start_time_millis, e=p.end_time_millis) for p in rec.phases])
      state['cbs'].append(snap)
      if i == 1:
        kept.append((state['run'], rec))
      if i == 1 and state['cur']['overlap'] == 'cb' and state['overlap'] is None:
        # a second execute() while the first one is finalizing (its executor thread has ended)
        # (from another thread, and never waited for longer than 20 s: an accepted
        # second run shares the first one's executor slot and may never return)
        import threading

        def second():
          try:
            test.execute()
            state['overlap'] = 'accepted'
          except test_descriptor.InvalidTestStateError:
            state['overlap'] = 'refused'
          except Exception as e:  # pylint: disable=broad-except
            state['overlap'] = 'raised %s' % type(e).__name__
        state['overlap'] = 'accepted (the second execute() did not return)'
        th = threading.Thread(target=second, name='second-execute', daemon=True)
        th.start()
        th.join(5)
      if i in state['cur']['raises']:
        raise CbError('callback %d raises' % i)
    return cb
  test.add_output_callbacks(*[make_cb(i) for i in (1, 2, 3)])

  def handlers():
    return [h for h in logging.getLogger(logs.LOGGER_PREFIX).handlers
            if isinstance(h, logs.RecordHandler)]

  base_handlers = len(handlers())
  for k, call in enumerate(hist):
    state.update(run=k + 1, cur=call, cbs=[], overlap=None, plug_bad=(call['path'] == 'plug_fail'))
    ctx.script = {n: [(b, 'n', ())] for n, b in PATH_SCRIPT[call['path']].items()}
    ctx.att = {}
    what = 'call %d (%s)' % (k + 1, call['path'])
    build.CONF.load(verif_c09_limits={'run': k + 1, 'seen': [k + 1]}, _override=True)
    try:
      ret = test.execute(test_start=start)
      got_ret = 'True' if ret is True else 'False' if ret is False else repr(ret)
    except KeyboardInterrupt:
      got_ret = 'KeyboardInterrupt'
    except Exception as e:  # pylint: disable=broad-except
      got_ret = 'raised %s' % type(e).__name__
    for t in ctx.aborters:
      t.join(5)
    build.CONF.verif_c09_limits['seen'].append('after')
    det = dict(call=k + 1, path=call['path'])
    if got_ret != call['ret']:
      bad.append(('execute() returned %s, model says %s' % (got_ret, call['ret']), det))
    cbs = state['cbs']
    if [c['i'] for c in cbs] != [c[0] for c in call['cbs']]:
      bad.append(('callbacks called %s, model says %s'
                  % ([c['i'] for c in cbs], [c[0] for c in call['cbs']]), det))
    if len({c['rid'] for c in cbs}) > 1:
      bad.append(('callbacks of one run received different record objects', det))
    for c in cbs:
      if c['oc'] != call['oc']:
        bad.append(('callback saw outcome %s, model says %s' % (c['oc'], call['oc']), det))
      if c['oc'] is None or not c['end'] or c['start'] is None or c['start'] > c['end'] or not c['start']:
        bad.append(('record handed to a callback is not final (outcome/start/end)', det))
      exp_dut = ('DUT%d' % (k + 1)) if call['dut'] else 'UNKNOWN_DUT'
      if c['dut'] != exp_dut:
        bad.append(('record dut_id is %r, expected %r' % (c['dut'], exp_dut), det))
      if c['name'] != 'openhtf_test' or not c['has_conf']:
        bad.append(('record metadata lacks test name / config snapshot', det))
      if c['conf'] != {'run': k + 1, 'seen': [k + 1]}:
        bad.append(('record metadata config is not the configuration as it was when execute() was called', det))
      if c['running']:
        bad.append(('a phase is still marked running when callbacks run', det))
      if c['finalized'] is False:
        bad.append(('test state not finalized when callbacks run', det))
      for p in c['phases']:
        if p['oc'] is None or p['res'] == 'UNSET' or not p['has_opts']:
          bad.append(('phase record without outcome/result/options handed to a callback', det))
        if not p['s'] or not p['e'] or p['s'] > p['e'] or not c['end'] or p['e'] > c['end']:
          bad.append(('phase record times not within start <= end <= test end', det))
    if call['overlap'] != 'none':
      exp = 'refused' if call['refused'] else None
      if state['overlap'] != exp:
        bad.append(('overlapping execute() was %s, model says %s' % (state['overlap'], exp), det))
    if test.state is not None or test.uid is not None:
      bad.append(('Test still holds an executor after execute() returned', det))
    if any(v is test for v in htf.Test.TEST_INSTANCES.values()):
      bad.append(('Test still registered for SIGINT after execute() returned', det))
    if len(handlers()) != base_handlers:
      bad.append(('record log handler not removed after execute() returned', det))
  for run, rec in kept:
    if (rec.metadata.get('config') or {}).get('verif_c09_limits') != {'run': run, 'seen': [run]}:
      bad.append(('a record that was handed to the callbacks changed afterwards (config snapshot)', dict(call=run)))
  return bad


def _work(args):
  sys.argv = sys.argv[:1]
  from vf import build  # import openhtf outside any scheduler run
  del build
  text, = args
  hists = tlaval.parse_many(text, 'HIST')
  out = dict(n=0, bad=[], sample=None, nontrivial=0)
  for (h,) in hists:
    if len(out['bad']) >= 6:
      break       # enough violations from this chunk: do not spend the budget on the rest of it
    for c in h:
      c['raises'] = set(c['raises'])
    use_sched = any(c['path'] in NEEDS_SCHED for c in h)
    bad = run_history(h, use_sched)
    out['n'] += 1
    if any(c['path'] != 'pass' or c['raises'] or c['overlap'] != 'none' for c in h):
      out['nontrivial'] += 1
    for sig, det in bad[:3]:
      if len(out['bad']) < 10:
        out['bad'].append((sig, dict(det, history=[dict(c, raises=sorted(c['raises'])) for c in h])))
    if out['sample'] is None:
      out['sample'] = [dict(path=c['path'], raises=sorted(c['raises']), overlap=c['overlap'],
                            outcome=c['oc'], ret=c['ret']) for c in h]
  return out


CFG = '''CONSTANTS
  Paths = {%(paths)s}
  NCb = 3
  MaxCalls = %(calls)d
  RaiseSets = %(raisesets)s
  Duts = %(duts)s
SPECIFICATION Spec
CONSTRAINT HistConstraint
INVARIANT Emit
CHECK_DEADLOCK FALSE
'''


def abort_sweep(chk):
  """a single abort (thread or simulated SIGINT) at every scheduling point of
  whole runs - the schedule sweep of the C04 check - judged on the clauses of
  C09 that can be read off the record handed to the callbacks"""
  from checks import c04
  sys.argv = sys.argv[:1]
  from vf import build, explore  # noqa: F401
  quick = chk.tier == 'quick'
  jobs = []
  for prog_name, source in (('group', 'thread'), ('start', 'thread'), ('repeat', 'thread'), ('subtest', 'thread'),
                            ('group', 'sigint')):
    roots = explore.split_roots(c04.make_run(prog_name, source, 1), 1, 6)
    cap = 4000 if quick else 40000
    per = max(50, cap // max(1, len(roots)))
    for r in roots:
      jobs.append((prog_name, source, 1, 1, r, per))
  seeds = [chk.seed * 104729 + i for i in range(150 if quick else 2000)]
  rjobs = [('group', 'thread', 1, seeds[k::6]) for k in range(6)]
  with mp.Pool(14, maxtasksperchild=8) as pool:
    outs = pool.map(c04.explore_job, jobs, chunksize=1) + pool.map(c04.random_job, rjobs, chunksize=1)
  n = 0
  for o in outs:
    n += o['n']
    for sig, det in o['rec_bad']:
      chk.violation(sig, det)
  chk.traces += n
  chk.nontrivial += n
  chk.tlc_runs.append(dict(name='abort sweep (single abort at every scheduling point), record clauses', schedules=n))
  chk.log('%d schedules with a single abort judged on the record clauses' % n)


def real_sigint(chk, owned=None):
  """real threads and a real SIGINT (no scheduler, own process): the signal
  arrives while execute() is blocked waiting for the executor thread - the
  "(or re-raises KeyboardInterrupt)" exit of the statement on the interpreter
  the repository runs on"""
  import os
  import subprocess
  script = os.path.join(os.path.dirname(os.path.abspath(__file__)), 'scripts', 'sigint_real.py')
  env = dict(os.environ, PYTHONPATH=os.environ.get('VERIF_REPO', '/repo'))
  n = 0
  for where in ('teardown', 'main'):
    for rep in range(2 if chk.tier == 'quick' else 6):
      p = subprocess.run([sys.executable, script, where], env=env, stdout=subprocess.PIPE, stderr=subprocess.DEVNULL,
                         text=True, timeout=120)
      line = next((l for l in p.stdout.splitlines() if l.startswith('RESULT ')), None)
      if line is None:
        raise RuntimeError('harness: sigint_real.py %s printed no result (rc=%s)' % (where, p.returncode))
      r = json.loads(line[7:])
      n += 1
      det = dict(scenario='real SIGINT', where=where, observed=r)
      what = 'real SIGINT while execute() waits for the executor (a %s phase is running): ' % where
      if owned is None and r['ret'] != 'KeyboardInterrupt':
        chk.violation(what + 'execute() does not re-raise KeyboardInterrupt', det)
      if owned is None and len(r['callbacks']) != 1:
        chk.violation(what + 'output callback called %d times' % len(r['callbacks']), det)
      for c in r['callbacks']:
        if owned == 'plugs':
          if c.get('plug_td') != ['td-begin', 'td-end']:
            chk.violation('real SIGINT while execute() waits for the executor: plug tearDown had not finished when the '
                          'output callbacks ran (%s)' % c.get('plug_td'), det)
          continue
        if c['oc'] is None or not c['end'] or any(p[1] is None or not p[2] for p in c['phases']):
          chk.violation(what + 'the record handed to the callbacks is not final', det)
        elif c['oc'] != 'ABORTED':
          chk.violation(what + 'outcome is %s' % c['oc'], det)
      if owned is None and (r['state_left'] or r['registered']):
        chk.violation(what + 'the Test keeps its executor / SIGINT registration', det)
  chk.traces += n
  chk.nontrivial += n
  chk.tlc_runs.append(dict(name='real SIGINT during the wait for the executor thread', runs=n))
  chk.log('%d runs with a real SIGINT' % n)


def main(chk):
  res = tlc.must_pass(tlc.run('Lifecycle', 'Lifecycle_mc.cfg', coverage=True), 'Lifecycle design check')
  cov = res.coverage()
  for a in ('Begin', 'Overlap', 'Finalize', 'Callback', 'End'):
    if not cov.get(a, (0, 0))[1]:
      raise tlc.TLCError('vacuity: action %s never taken' % a)
  chk.add_tlc('design', res, action_counts={k: v[1] for k, v in cov.items()})
  allp = '"pass", "fail", "fail_unset", "stop", "error", "start_terminal", "plug_fail", "timeout", "abort"'
  if chk.tier == 'quick':
    runs = [dict(paths=allp, calls=2, raisesets='{{}, {2}, {1, 2, 3}}', duts='{TRUE}'),
            dict(paths='"pass", "error", "abort"', calls=3, raisesets='{{}, {1, 3}}', duts='{FALSE}')]
  else:
    runs = [dict(paths=allp, calls=2, raisesets='{{}, {1}, {2}, {3}, {1, 2}, {1, 3}, {2, 3}, {1, 2, 3}}', duts='{TRUE, FALSE}'),
            dict(paths=allp, calls=3, raisesets='{{}, {1, 3}}', duts='{FALSE}')]
  with mp.Pool(14, maxtasksperchild=30) as pool:
    for r in runs:
      e = tlc.must_pass(tlc.run('Lifecycle', CFG % r, workers=4), 'Lifecycle emit')
      chunks = tlaval.split_prints(e.out, 'HIST', 56)
      outs = pool.map(_work, [(c,) for c in chunks])
      n = sum(o['n'] for o in outs)
      chk.add_tlc('emit', e, histories=n, config=r)
      chk.traces += n
      chk.nontrivial += sum(o['nontrivial'] for o in outs)
      for o in outs:
        for sig, det in o['bad']:
          chk.violation(sig, det)
        if o['sample']:
          chk.sample(o['sample'])
      chk.log('%d histories of %d execute() calls replayed' % (n, r['calls']))
  abort_sweep(chk)
  real_sigint(chk)
  # binding self-test: a corrupted expectation must be reported
  h = [dict(path='pass', raises=set(), overlap='none', dut=True, oc='PASS', ret='False',
            cbs=[[1, 'ok'], [2, 'ok'], [3, 'ok']], refused=0)]
  if not run_history(h, False):
    raise tlc.TLCError('selftest: corrupted expectation not detected')
  chk.cov['binding_selftest'] = 'corrupted expected return value detected'
  chk.cov['rule'] = ('histories of execute() calls on one Test object enumerated by TLC; non-trivial = some '
                     'call is not a plain PASS without raising callbacks')
  chk.assumptions += ['the overlapping execute() is issued from inside the test_start phase body of the running test',
                      'the KeyboardInterrupt (SIGINT) exit path is exercised by the C04 check']
  return chk.finish(explanation='Lifecycle.tla checked by TLC; every emitted history replayed on one real Test '
                    'object with snapshotting callbacks and inspection of Test.state / TEST_INSTANCES / log '
                    'handlers after every call', exhaustive=True)


def replay(path):
  with open(path) as fh:
    sc = json.load(fh)['scenario']
  if sc.get('scenario') == 'real SIGINT':
    chk = common.Check('C09', 'quick', 0)
    real_sigint(chk)
    for sig, det in chk.violations:
      print('VIOLATION property=C09 replay=%s\n  what: %s' % (path, sig))
      return 1
    print('replay: real SIGINT runs are complete and final')
    return 0
  if 'history' not in sc:
    import random
    from checks import c04
    from vf import build, sched  # noqa: F401
    sys.argv = sys.argv[:1]
    pol = sched.Replay(sc['schedule']) if 'schedule' in sc else sched.RandomPolicy(random.Random(sc['seed']), 0.25)
    failure, box = None, {}
    try:
      _, box = c04.make_run(sc['program'], sc['source'], sc['aborts'])(pol)
    except (sched.Deadlock, sched.StepBudget) as e:
      failure = e
    for sig in c04.record_final(box or {}, failure):
      print('VIOLATION property=C09 replay=%s\n  what: %s' % (path, sig))
      return 1
    print('replay: the record of this schedule is complete and final')
    return 0
  h = sc['history']
  for c in h:
    c['raises'] = set(c['raises'])
  bad = run_history(h, any(c['path'] in NEEDS_SCHED for c in h))
  for sig, det in bad:
    print('VIOLATION property=C09 replay=%s\n  what: %s' % (path, sig))
    return 1
  print('replay: history conforms')
  return 0
