"""C04 - operator abort: the run ends ABORTED, nothing new starts, no deadlock.

Spec: specs/AbortHandshake.tla (PlusCal: executor / phase threads / one or two
aborters at the granularity of _abort, _full_abort, _stopping, the teardown
lock and _current_phase_thread_lock).  TLC checks AtMostOneBody,
NoStartAfterAbortReturned, NoBodyAfterFinalize, AbortedWins, TeardownAllRun,
ExecReturns, AbortsReturn on the repaired protocol; the protocol as originally
pinned (abort() re-opens the _stopping gate itself) violates
NoStartAfterAbortReturned (sensitivity evidence).

Code side: whole runs of the real executor over a family of programs under the
deterministic scheduler.  The abort comes (a) from a simulated SIGINT: the real
Test.handle_sig_int runs on the thread that called execute(), at a moment chosen
by the schedule, and its KeyboardInterrupt propagates out of the interrupted
call; (b) from another thread calling abort_from_sig_int().  One or two aborts.
Every schedule with at most 1 (quick) / 2 (thorough, capped) preemptions plus
seeded random schedules is executed and its event log is judged against the
formulas above."""
import json
import multiprocessing as mp
import random
import sys
import threading

from vf import common, tlaval, tlc

TD_PREFIX = 't'      # teardown phases are named t1, t2, ...


def programs():
  from vf.progs import beh, group, opts, phase, program, subtest
  P = lambda n, b='C', **kw: phase(n, beh(b), **kw)
  # every program declares the sentinel plug x: its tearDown marks the beginning of finalization
  return {
      'plain': program([P('p1', plugs=('x',)), P('p2'), P('p3')]),
      'group': program([group('g1', [P('s1')], [P('m1', plugs=('x',)), P('m2')], [P('t1'), P('t2')]),
                        P('after')]),
      'repeat': program([phase('r1', beh('RC'), o=opts(limit=3), plugs=('x',)), P('q1')]),
      'subtest': program([subtest('sub1', [P('a1', plugs=('x',)), P('b1')]), P('c1')]),
      'start': program([P('p1', plugs=('x',)), group('g1', [], [P('m1')], [P('t1')])], start=P('st')),
      # the last setup node is itself a group: an abort during its (protected) teardown leaves setup complete
      # like 'group', but the main body ignores the kill for a while (blocked in C code, slow cleanup):
      # the executor abandons it and the group's teardown must still run
      'stubborn': program([group('g1', [P('s1')], [P('m1', plugs=('x',)), P('m2')], [P('t1'), P('t2')]),
                           P('after')]),
      # no abort at all: the main body m1 returns at the very moment its timeout expires (see make_run);
      # whether the executor sees a timeout or the body's own result, the entered group is torn down once
      'deadline': program([group('g1', [], [P('m1', plugs=('x',))], [P('t1')])]),
      # no abort: both plugs' tearDown return at the very moment plug_teardown_timeout_s expires (C08)
      'plugedge': program([P('p1', plugs=('x', 'y'))], plugspec=dict(tdmode={'x': 'edge', 'y': 'edge'})),
      'nested': program([group('g1', [P('s1', plugs=('x',)), group('g0', [], [P('sm')], [P('t0')])],
                               [P('m1')], [P('t1')]), P('after')]),
  }


# per program: (setup phases, first main phase, teardown phases) of every group.  A group with setup
# phases counts as entered when every setup phase has a record with a non-terminal result ("If all
# setup nodes of a PhaseGroup complete without a terminal result"), one without when its first main
# body started.
GROUPS = {
    'group': [(('s1',), 'm1', ('t1', 't2'))],
    'stubborn': [(('s1',), 'm1', ('t1', 't2'))],
    'deadline': [((), 'm1', ('t1',))],
    'start': [((), 'm1', ('t1',))],
    'nested': [((), 'sm', ('t0',)), (('s1', 'sm', 't0'), 'm1', ('t1',))],
}


SCRIPTS = {
    'plain': {'p1': 'C', 'p2': 'C', 'p3': 'C'},
    'group': {'s1': 'C', 'm1': 'C', 'm2': 'C', 't1': 'C', 't2': 'C', 'after': 'C'},
    'stubborn': {'s1': 'C', 'm1': 'C', 'm2': 'C', 't1': 'C', 't2': 'C', 'after': 'C'},
    'deadline': {'m1': 'C', 't1': 'C'},
    'plugedge': {'p1': 'C'},
    'repeat': {'r1': 'RRC', 'q1': 'C'},
    'subtest': {'a1': 'C', 'b1': 'C', 'c1': 'C'},
    'start': {'st': 'C', 'p1': 'C', 'm1': 'C', 't1': 'C'},
    'nested': {'s1': 'C', 'sm': 'C', 't0': 'C', 'm1': 'C', 't1': 'C', 'after': 'C'},
}


def make_run(prog_name, source, naborts):
  """returns run_fn(policy) -> (sched, box)"""
  def run(policy):
    from vf import build, sched
    import openhtf as htf
    deadline = prog_name in ('deadline', 'plugedge')
    # deadline race: every statement of threads.py is a scheduling point as well (the kill of the timed-out
    # phase thread races with that thread's own exit)
    s = sched.Sched(policy=policy, max_steps=60000, trace_events=True,
                    trace_files=('openhtf/util/threads.py',) if deadline else (), free_wake=deadline)
    box = {}

    def main():
      build.reset_process_globals()
      if deadline:
        # statement-level points lie inside threads.synchronized: the configuration's lock (created at
        # import time, a real lock) must be a cooperative one for the duration of this run
        build.CONF._lock = threading.RLock()
      prog = programs()[prog_name]
      script = {n: [(b, 'n', ()) for b in bs] * 3 for n, bs in SCRIPTS[prog_name].items()}
      ctx = build.Ctx(script)

      def body_hook(c, name, api, b):
        if prog_name == 'stubborn' and name == 'm1':
          import time
          from openhtf.util import threads as _threads
          t_end = time.time() + 8
          while time.time() < t_end:        # swallows the kill and carries on for 8 (virtual) seconds
            try:
              time.sleep(0.5)
            except _threads.ThreadTerminationError:
              pass
          return
        if deadline:
          if name == 'm1':
            import time
            time.sleep(1.0)
          return
        sched.point('body')
        sched.point('body')
      ctx.hooks['body'] = body_hook
      test, start = build.make_test(ctx, prog, timeout_s=1 if prog_name == 'deadline' else None)
      if prog_name == 'plugedge':
        build.CONF.load(plug_teardown_timeout_s=3, _override=True)
      out = []

      def cb(rec):
        ctx.events.append(('cb', len(out)))
        out.append(rec)
      test.add_output_callbacks(cb)
      box['ctx'] = ctx

      def handler(k):
        def h():
          if any(e[0] == 'exec-ret' for e in ctx.events):
            ctx.events.append(('abort-ret', k))      # the signal arrived after execute() returned: not our business
            return
          ctx.events.append(('abort-call', k))
          try:
            htf.Test.handle_sig_int(None, None)
          finally:
            ctx.events.append(('abort-ret', k))
        return h

      def sig():
        # "aborts a running test": wait until execute() has registered the test
        while not htf.Test.TEST_INSTANCES:
          if ctx.events and ctx.events[-1][0] in ('exec-ret', 'exec-done'):
            return
          sched.point('sig.wait-for-start')
          import time
          time.sleep(0.001)
        for k in range(naborts):
          sched.point('sig')
          if source == 'sigint':
            s.interrupt(0, handler(k))
            # the operator's next Ctrl-C comes after this handler has run
            spins = 0
            while ('abort-ret', k) not in ctx.events:
              spins += 1
              if (ctx.events and ctx.events[-1][0] == 'exec-done') or spins > 400:
                return
              sched.point('sig.wait-for-handler')
              import time
              time.sleep(0.001)
          else:
            ctx.events.append(('abort-call', k))
            test.abort_from_sig_int()
            ctx.events.append(('abort-ret', k))
      th = threading.Thread(target=sig if naborts else (lambda: None), name='sig')
      th.start()
      try:
        ret = test.execute(test_start=start)
        ctx.events.append(('exec-ret', ret))
      except KeyboardInterrupt:
        ctx.events.append(('exec-ret', 'KeyboardInterrupt'))
      except Exception as e:  # pylint: disable=broad-except
        ctx.events.append(('exec-raised', type(e).__name__))
      finally:
        if prog_name == 'plugedge':
          build.CONF.load(plug_teardown_timeout_s=0, _override=True)
      box['rec'] = out[0] if out else None
      box['ncb'] = len(out)
      ctx.events.append(('exec-done',))
      th.join()
      for t in ctx.aborters:
        t.join()
      box['test'] = test
    conf_lock = build.CONF._lock
    try:
      s.run(main)
    finally:
      build.CONF._lock = conf_lock
      ctx = box.get('ctx')
      box['events'] = list(ctx.events) if ctx else []
      LAST['box'] = box
    return s, box
  return run


LAST = {}


def judge(prog_name, naborts, box, failure):
  ev = box.get('events', [])
  bad = []
  names = [e[0] for e in ev]

  def first(kind, pred=lambda e: True):
    return next((i for i, e in enumerate(ev) if e[0] == kind and pred(e)), None)
  if failure is not None:
    blocked = str(failure)
    in_handler = ('abort-call' in names and names.count('abort-call') > names.count('abort-ret'))
    if "('main', 'lock.wait held-by=main')" in blocked:
      return ['execute() never returns: SIGINT delivered while execute() holds Test._lock, the handler blocks on that lock']
    return ['execute() never returns (%s)' % type(failure).__name__]
  if 'exec-ret' not in names:
    return ['execute() raised an unexpected exception']
  er = ev[names.index('exec-ret')]
  test = box.get('test')
  fin0 = first('plug', lambda e: e[1] == 'teardown')
  ac0 = first('abort-call')
  if er[1] == 'KeyboardInterrupt' and box.get('ncb') == 0 and fin0 is not None and ac0 is not None and ac0 > fin0:
    return ['SIGINT during the finalization section of execute() (after the executor thread ended): '
            'KeyboardInterrupt skips the output callbacks']
  if er[1] == 'KeyboardInterrupt' and box.get('ncb') == 0 and test is not None and test.uid is not None:
    return ['SIGINT delivered between registration and the try block of execute(): KeyboardInterrupt escapes, '
            'no callbacks, executor and registration leak']
  # at most one body at a time
  open_bodies = set()
  for e in ev:
    if e[0] == 'body':
      if open_bodies and prog_name not in ('stubborn', 'deadline'):     # an abandoned body keeps running beside the teardown by design
        bad.append('two phase bodies of one test run at once')
      open_bodies.add((e[1], e[2]))
    elif e[0] == 'body_end':
      open_bodies.discard((e[1], e[2]))
  ar = first('abort-ret')
  fin = first('plug', lambda e: e[1] == 'teardown')
  cb = first('cb')
  fin_i = min([i for i in (fin, cb) if i is not None], default=None)
  for i, e in enumerate(ev):
    if e[0] == 'body':
      if ar is not None and i > ar and not e[1].startswith(TD_PREFIX):
        bad.append('a test_start/setup/main phase body was invoked after the abort call had returned')
      if fin_i is not None and i > fin_i:
        bad.append('a phase body started after the record was finalized')
  rec = box.get('rec')
  if rec is None:
    bad.append('no record was handed to the output callbacks')
  else:
    ladder = first('plug', lambda e: e[1] == 'teardown')
    if ar is not None and ladder is not None and ar < ladder and rec.outcome.name != 'ABORTED':
      bad.append('abort returned before finalization but the outcome is %s' % rec.outcome.name)
    if 'abort-call' not in names and rec.outcome.name == 'ABORTED':
      bad.append('outcome ABORTED without any abort')
  if box.get('ncb') != 1:
    bad.append('output callbacks received the record %s times' % box.get('ncb'))
  # teardown of an entered group still runs (single abort); a group whose setup did not complete
  # runs neither main nor teardown
  if naborts <= 1 and prog_name in GROUPS and rec is not None:
    from vf import build
    res_of = {}
    for p in rec.phases:
      res_of.setdefault(p.name, build.result_kind(p.result))
    for setup, main1, tds in GROUPS[prog_name]:
      if setup:
        entered = all(res_of.get(n) in ('CONTINUE', 'FAIL_AND_CONTINUE') for n in setup)
        reached = setup[0] in res_of or first('body', lambda e: e[1] == setup[0]) is not None
      else:
        entered = first('body', lambda e: e[1] == main1) is not None
        reached = entered
      for t in tds:
        cnt = sum(1 for e in ev if e[0] == 'body' and e[1] == t)
        if entered and cnt != 1:
          bad.append('teardown phase of an entered group ran %d times after %s' % (cnt, 'a single abort' if naborts else 'its main phase reached its timeout'))
        if setup and reached and not entered and cnt:
          bad.append('teardown phase of a group ran although its setup did not complete')
  plugs_new = [e for e in ev if e[0] == 'plug' and e[1] == 'new']
  plugs_td = [e for e in ev if e[0] == 'plug' and e[1] == 'teardown']
  if len(plugs_new) != len(plugs_td):
    bad.append('plug tearDown did not run for every constructed plug')
  # second abort: nothing new starts after it returned
  if naborts == 2:
    rets = [i for i, e in enumerate(ev) if e[0] == 'abort-ret']
    if len(rets) == 2:
      for i, e in enumerate(ev):
        if e[0] == 'body' and i > rets[1]:
          bad.append('a phase body started after the second abort had returned')
  test = box.get('test')
  if test is not None and (test.state is not None):
    bad.append('Test still holds an executor after execute() returned')
  return bad


def record_final(box, failure):
  """the C09 clauses that can be read off the record itself, for whole aborted
  runs (owned by the C09 check, which runs this sweep too)"""
  from vf import build
  rec = box.get('rec')
  if failure is not None:
    return []
  ev = box.get('events', [])
  names = [e[0] for e in ev]
  if 'exec-raised' in names:
    # an abort from another thread (or a SIGINT) never makes execute() raise anything but KeyboardInterrupt
    return ['execute() of an aborted run raised %s: no complete record, %d callback(s) called'
            % (ev[names.index('exec-raised')][1], box.get('ncb', 0))]
  if 'exec-ret' in names and ev[names.index('exec-ret')][1] != 'KeyboardInterrupt' and box.get('ncb') != 1:
    return ['execute() of an aborted run returned but the output callback was called %s time(s)' % box.get('ncb')]
  if rec is None:
    return []
  bad = []
  if rec.outcome is None or not rec.end_time_millis or not rec.start_time_millis or \
      rec.start_time_millis > rec.end_time_millis:
    bad.append('record handed to a callback is not final (outcome/start/end)')
  for p in rec.phases:
    if p.outcome is None or build.result_kind(p.result) == 'UNSET' or p.options is None:
      bad.append('phase record without outcome/result/options handed to a callback')
    if not p.start_time_millis or not p.end_time_millis or p.start_time_millis > p.end_time_millis or \
        (rec.end_time_millis and p.end_time_millis > rec.end_time_millis):
      bad.append('phase record times not within start <= end <= test end')
  if not rec.dut_id:
    bad.append('record dut_id is not set')
  if rec.metadata.get('test_name') is None or 'config' not in rec.metadata:
    bad.append('record metadata lacks test name / config snapshot')
  return sorted(set(bad))


def _quiet_threads():
  threading.excepthook = lambda a: None     # leftover threads of abandoned runs unwind noisily


def explore_job(args):
  sys.argv = sys.argv[:1]
  _quiet_threads()
  prog_name, source, naborts, bound, root, maxruns = args
  from vf import build, explore  # noqa: F401
  out = dict(n=0, bad=[], kinds={}, rec_bad=[])
  try:
    for picks, decisions, box, failure in explore.explore(make_run(prog_name, source, naborts), bound,
                                                          max_runs=maxruns, root=root):
      out['n'] += 1
      if failure is not None:
        box = LAST.get('box', {})
      for b in record_final(box or {}, failure):
        if sum(1 for x in out['rec_bad'] if x[0] == b) < 2:
          out['rec_bad'].append((b, dict(program=prog_name, source=source, aborts=naborts, schedule=picks)))
      for b in judge(prog_name, naborts, box or {}, failure):
        out['kinds'][b] = out['kinds'].get(b, 0) + 1
        if sum(1 for x in out['bad'] if x[0] == b) < 2:
          out['bad'].append((b, dict(program=prog_name, source=source, aborts=naborts, schedule=picks,
                                     events=[list(map(str, e)) for e in (box or {}).get('events', [])][-40:])))
  except Exception:  # pylint: disable=broad-except
    import traceback
    raise RuntimeError('worker failed:\n' + traceback.format_exc())
  return out


def random_job(args):
  sys.argv = sys.argv[:1]
  _quiet_threads()
  prog_name, source, naborts, seeds = args
  from vf import build, sched  # noqa: F401
  out = dict(n=0, bad=[], kinds={}, rec_bad=[])
  for sd in seeds:
    pol = sched.RandomPolicy(random.Random(sd), 0.25)
    failure = None
    box = {}
    try:
      s, box = make_run(prog_name, source, naborts)(pol)
    except (sched.Deadlock, sched.StepBudget) as e:
      failure = e
      box = LAST.get('box', {})
    out['n'] += 1
    for b in record_final(box, failure):
      if sum(1 for x in out['rec_bad'] if x[0] == b) < 2:
        out['rec_bad'].append((b, dict(program=prog_name, source=source, aborts=naborts, seed=sd)))
    for b in judge(prog_name, naborts, box, failure):
      out['kinds'][b] = out['kinds'].get(b, 0) + 1
      if sum(1 for x in out['bad'] if x[0] == b) < 2:
        out['bad'].append((b, dict(program=prog_name, source=source, aborts=naborts, seed=sd)))
  return out


def main(chk):
  res = tlc.must_pass(tlc.run('AbortHandshake', 'AbortHandshake_fixed.cfg', workers=8, coverage=True),
                      'AbortHandshake design check')
  chk.add_tlc('AbortHandshake (repaired protocol, 1 setup + 1 main + 2 teardown phases, 2 aborters; safety + liveness)', res)
  neg = tlc.run('AbortHandshake', 'AbortHandshake_pinned.cfg', workers=8)
  if 'NoStartAfterAbortReturned' not in neg.invariant_violated:
    raise tlc.TLCError('sensitivity: the pinned protocol should violate NoStartAfterAbortReturned')
  chk.cov['model_sensitivity'] = ('AbortHandshake.tla with ResetInAbort=TRUE (abort() clears _stopping itself) violates '
                                  'NoStartAfterAbortReturned: TLC reproduces the abort window')
  neg2 = tlc.run('AbortHandshake', 'AbortHandshake_postloop.cfg', workers=8)
  if 'EnteredMeansTeardown' not in neg2.invariant_violated:
    raise tlc.TLCError('sensitivity: a second look at the abort flag after the setup sequence should violate EnteredMeansTeardown')
  chk.cov['model_sensitivity_2'] = ('AbortHandshake.tla with PostLoopAbortCheck=TRUE (abort flag re-read after the setup sequence) '
                                    'violates EnteredMeansTeardown: an entered group loses its teardown')
  quick = chk.tier == 'quick'
  sys.argv = sys.argv[:1]
  from vf import build, explore  # noqa: F401
  jobs = []
  combos = [('group', 'sigint', 1), ('group', 'thread', 1), ('plain', 'sigint', 1), ('group', 'sigint', 2),
            ('repeat', 'thread', 1), ('start', 'sigint', 1), ('subtest', 'thread', 1), ('nested', 'thread', 1),
            ('group', 'thread', 2), ('nested', 'thread', 2), ('stubborn', 'thread', 1)]
  bound = 1
  cap = 6000 if quick else 60000
  for prog_name, source, n in combos:
    roots = explore.split_roots(make_run(prog_name, source, n), bound, 6)
    per = max(50, cap // max(1, len(roots)))
    for r in roots:
      jobs.append((prog_name, source, n, bound, r, per))
  rjobs = []
  nseeds = 200 if quick else 3000
  for prog_name, source, n in combos:
    seeds = [chk.seed * 7919 + i for i in range(nseeds)]
    for k in range(4):
      rjobs.append((prog_name, source, n, seeds[k::4]))
  with mp.Pool(14, maxtasksperchild=8) as pool:
    outs = pool.map(explore_job, jobs, chunksize=1)
    routs = pool.map(random_job, rjobs, chunksize=1)
  # "the phase body running at that moment is asked to terminate": the abort's kill of a phase thread must not
  # be lost, whatever the thread was doing when it arrived - the run/kill handshake of KillableThread (the DFS of
  # the C12 check, judged here on the lost-kill rule only)
  from checks import c12
  with mp.Pool(2) as pool2:
    for (order, bnd), (n, bad) in zip([('concurrent', 3)], pool2.map(c12.kill_explore_judged, [('concurrent', 3)])):
      chk.traces += n
      chk.nontrivial += n
      chk.tlc_runs.append(dict(name='dfs run/kill handshake (bound %d)' % bnd, schedules=n))
      for sig, det in bad:
        if 'kill lost' in sig:
          chk.violation('the kill of a phase thread that had not yet entered its body is lost: the body runs although the '
                        'abort asked it to terminate', det)
  total = 0
  kinds = {}
  for o in outs + routs:
    total += o['n']
    for k, v in o['kinds'].items():
      kinds[k] = kinds.get(k, 0) + v
    for sig, det in o['bad']:
      chk.violation(sig, det)
  chk.traces += total
  chk.nontrivial += total
  chk.cov['verdict_counts'] = kinds
  chk.sample(dict(part='schedules', combos=combos, explored=total))
  chk.log('%d schedules of whole aborted runs judged' % total)
  chk.cov['rule'] = ('programs {plain sequence, group with setup/main/teardown + plug, repeating phase, subtest, test_start} x '
                     'abort source {simulated SIGINT on the execute() thread, other thread} x {1,2} aborts; schedules: DFS with <= 1 '
                     'preemption (capped) + seeded random; every schedule distinct')
  chk.assumptions += ['preemption / signal delivery only at synchronisation operations, flag reads and body points',
                      'bodies honour the kill (a body that ignores it keeps running beside the teardown phases by design)',
                      '"finalization began" is observed as the first plug tearDown / output callback event']
  return chk.finish(explanation='AbortHandshake.tla checked by TLC; whole aborted runs of the real executor explored under the '
                    'deterministic scheduler and judged against the same formulas', exhaustive=False)


def replay(path):
  with open(path) as fh:
    sc = json.load(fh)['scenario']
  sys.argv = sys.argv[:1]
  from vf import build, sched  # noqa: F401
  pol = sched.Replay(sc['schedule']) if 'schedule' in sc else sched.RandomPolicy(random.Random(sc['seed']), 0.25)
  failure, box = None, {}
  try:
    s, box = make_run(sc['program'], sc['source'], sc['aborts'])(pol)
  except (sched.Deadlock, sched.StepBudget) as e:
    failure = e
    box = LAST.get('box', {})
  bad = judge(sc['program'], sc['aborts'], box, failure)
  if bad:
    print('VIOLATION property=C04 replay=%s\n  what: %s' % (path, bad[0]))
    return 1
  print('replay: the schedule satisfies the abort formulas')
  return 0
