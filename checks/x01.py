"""X01 (extension, not one of the listed properties) - monitored phases
(openhtf.core.monitors).  Spec: specs/Monitor.tla, trace spec
specs/Monitor_trace.tla.

TLC checks RowsAreCalls / KeysIncrease / NeverEarly / JoinedMeansDead /
NoLateSample / PhaseReturns on the design; real monitored phases are run under
the deterministic scheduler (virtual time) for a grid of body shapes and for
DFS / random schedules, their event logs are validated against the trace
specification by TLC (one batch), and the rows of the record are compared with
the rows observed at the store operation."""
import json
import multiprocessing as mp
import random
import sys
import threading  # noqa: F401

from vf import common, tlc, tracecheck  # noqa: F401

INTERVAL_MS = 500


class BodyError(Exception):
  pass


def make_run(steps, step_ms, raises, seed=None):
  """returns run_fn(policy) -> (sched, box)"""
  def run(policy):
    import time
    from vf import build, sched
    import openhtf as htf
    from openhtf.core import measurements, monitors
    s = sched.Sched(policy=policy, max_steps=200000)
    box = {'raises': raises}

    def ms():
      return int(round((s.now - s.t0) * 1000))

    def main():
      build.reset_process_globals()
      n = [0]
      MT = monitors._MonitorThread
      DV = measurements.DimensionedMeasuredValue
      orig = dict(kill=MT.kill, join=MT.join, fin=MT._thread_finished, start=MT.start, setitem=DV.__setitem__)

      def kill(self):
        s.emit('kill', ms())
        return orig['kill'](self)

      def join(self, *a):
        r = orig['join'](self, *a)
        s.emit('joined', ms())
        return r

      def fin(self):
        s.emit('dead', ms())
        return orig['fin'](self)

      def start(self):
        s.emit('start', ms())
        return orig['start'](self)

      def setitem(self, coords, value):
        r = orig['setitem'](self, coords, value)
        if self.name == 'mm':
          s.emit('store', int(round(coords if not isinstance(coords, tuple) else coords[0])), value, ms())
        return r
      MT.kill, MT.join, MT._thread_finished, MT.start, DV.__setitem__ = kill, join, fin, start, setitem
      try:
        def mon(test):
          n[0] += 1
          s.emit('call', n[0], ms())
          return n[0]

        @monitors.monitors('mm', mon, poll_interval_ms=INTERVAL_MS)
        def body(test):
          for _ in range(steps):
            time.sleep(step_ms / 1000.0)
          s.emit('bodyend', ms())
          if raises:
            raise BodyError('body raises')
        test = htf.Test(body)
        out = []
        test.add_output_callbacks(out.append)
        CONF = htf.util.configuration.CONF if hasattr(htf.util, 'configuration') else None
        del CONF
        box['ret'] = test.execute(test_start=lambda: 'dut')
        box['rec'] = out[0] if out else None
      finally:
        MT.kill, MT.join, MT._thread_finished, MT.start, DV.__setitem__ = (
            orig['kill'], orig['join'], orig['fin'], orig['start'], orig['setitem'])
    try:
      s.run(main)
    finally:
      box['log'] = list(s.log)
      LAST['box'] = box
    return s, box
  return run


LAST = {}


def to_trace(log):
  out = []
  for e in log:
    if e[0] in ('start', 'bodyend', 'kill', 'dead', 'joined'):
      out.append(dict(e=e[0], t=e[1]))
    elif e[0] == 'call':
      out.append(dict(e='call', n=e[1], t=e[2]))
    elif e[0] == 'store':
      out.append(dict(e='store', key=e[1], val=e[2], t=e[3]))
  return out


def judge(box):
  """record-level clauses (the trace-level ones are TLC's)"""
  bad = []
  rec = box.get('rec')
  if rec is None:
    return ['no record was produced']
  ph = [p for p in rec.phases if p.name == 'body']
  if len(ph) != 1:
    return ['the monitored phase has %d records' % len(ph)]
  m = ph[0].measurements.get('mm')
  if m is None:
    return ['the monitor measurement is missing from the phase record']
  stores = [(e[1], e[2]) for e in box['log'] if e[0] == 'store']
  rows = []
  if m.measured_value.is_value_set:
    rows = [(int(round(k)), v) for k, v in m.measured_value.value]
  # (a kill that lands between the store and its log entry leaves one row more than logged stores: the
  # value of the last call)
  calls = [e[1] for e in box['log'] if e[0] == 'call']
  extra = rows[len(stores):]
  if rows[:len(stores)] != stores or len(extra) > 1 or (extra and (not calls or extra[0][1] != calls[-1])):
    bad.append('rows of the recorded monitor measurement differ from the rows written by the monitor thread')
  ph_exp = 'ERROR' if box.get('raises') else 'PASS'
  if rows and ph[0].outcome.name != ph_exp:
    bad.append('the monitored phase is recorded %s, its body %s' % (ph[0].outcome.name, 'raised' if box.get('raises') else 'returned None'))
  stores = rows
  exp = 'UNSET' if not stores else 'PASS'
  if m.outcome.name != exp:
    bad.append('monitor measurement outcome is %s with %d rows' % (m.outcome.name, len(stores)))
  return bad


def grid_job(args):
  sys.argv = sys.argv[:1]
  from vf import build, sched  # noqa: F401
  out = []
  for steps, step_ms, raises in args:
    try:
      s, box = make_run(steps, step_ms, raises)(sched.Sequential())
      out.append((dict(steps=steps, step_ms=step_ms, raises=raises, schedule='sequential'), to_trace(box['log']), judge(box)))
    except (sched.Deadlock, sched.StepBudget) as e:
      out.append((dict(steps=steps, step_ms=step_ms, raises=raises, schedule='sequential'), None, ['the monitored phase never returns: %s' % type(e).__name__]))
  return out


def dfs_job(args):
  sys.argv = sys.argv[:1]
  steps, step_ms, raises, bound, root, maxruns = args
  from vf import build, explore, sched  # noqa: F401
  threading.excepthook = lambda a: None
  out = []
  for picks, decisions, box, failure in explore.explore(make_run(steps, step_ms, raises), bound, max_runs=maxruns, root=root):
    sc = dict(steps=steps, step_ms=step_ms, raises=raises, schedule=picks)
    if failure is not None:
      out.append((sc, None, ['the monitored phase never returns: %s' % type(failure).__name__]))
    else:
      out.append((sc, to_trace(box['log']), judge(box)))
  return out


def random_job(args):
  sys.argv = sys.argv[:1]
  steps, step_ms, raises, seeds = args
  from vf import build, sched  # noqa: F401
  threading.excepthook = lambda a: None
  out = []
  for sd in seeds:
    sc = dict(steps=steps, step_ms=step_ms, raises=raises, seed=sd)
    try:
      s, box = make_run(steps, step_ms, raises)(sched.RandomPolicy(random.Random(sd), 0.3))
      out.append((sc, to_trace(box['log']), judge(box)))
    except (sched.Deadlock, sched.StepBudget) as e:
      out.append((sc, None, ['the monitored phase never returns: %s' % type(e).__name__]))
  return out


def main(chk):
  res = tlc.must_pass(tlc.run('Monitor', 'Monitor_mc.cfg', workers=4, coverage=True), 'Monitor design check')
  cov = res.coverage()
  for a in ('Start', 'Call', 'Store', 'BodyEnd', 'Kill', 'Die', 'Join', 'Tick'):
    if not cov.get(a, (0, 0))[1]:
      raise tlc.TLCError('vacuity: action %s never taken' % a)
  chk.add_tlc('Monitor design (safety + PhaseReturns)', res, action_counts={k: v[1] for k, v in cov.items()})
  quick = chk.tier == 'quick'
  sys.argv = sys.argv[:1]
  from vf import explore
  grid = [(st, ms, r) for st in (0, 1, 2, 3, 5) for ms in (100, 250, 400, 500, 700, 1000) for r in (False, True)]
  shapes = [(2, 400, False), (1, 500, True), (3, 250, False)]
  jobs = []
  for sh in shapes:
    roots = explore.split_roots(make_run(*sh), 1, 5)
    per = max(40, (1500 if quick else 20000) // max(1, len(roots)))
    jobs += [sh + (1, r, per) for r in roots]
  seeds = [chk.seed * 7919 + i for i in range(60 if quick else 1500)]
  rjobs = [sh + (seeds[k::2],) for sh in shapes for k in range(2)]
  with mp.Pool(14, maxtasksperchild=8) as pool:
    outs = pool.map(grid_job, [grid[k::7] for k in range(7)]) + pool.map(dfs_job, jobs, chunksize=1) + \
        pool.map(random_job, rjobs, chunksize=1)
  runs = [x for o in outs for x in o]
  traces = [(sc, t) for sc, t, bad in runs if t is not None]
  for sc, t, bad in runs:
    for b in bad:
      chk.violation(b, sc)
  batch = [dict(id=i + 1, ev=t) for i, (sc, t) in enumerate(traces)]
  res, accepted = tracecheck.validate('Monitor_trace', 'Monitor_trace.cfg', batch, workers=8)
  if res.error:
    raise tlc.TLCError('trace validation failed: %s\n%s' % (res.error, res.out[-3000:]))
  chk.add_tlc('trace validation', res, traces=len(batch), accepted=len(accepted))
  for inv in res.invariant_violated:
    chk.violation('an execution of a real monitored phase violates %s of Monitor.tla' % inv, {})
  for i, (sc, t) in enumerate(traces):
    if i + 1 not in accepted:
      chk.violation('an execution of a real monitored phase is not a behaviour of Monitor.tla (trace rejected by TLC)',
                    dict(sc, trace=t))
  chk.traces += len(runs)
  chk.nontrivial += sum(1 for sc, t in traces if any(e['e'] == 'store' for e in t))
  if traces:
    chk.sample(dict(scenario=traces[0][0], trace=traces[0][1]))
  # binding self-test: a trace with one key shifted must be rejected
  good = next((t for sc, t in traces if sum(1 for e in t if e['e'] == 'store') >= 2), None)
  if good is None:
    raise tlc.TLCError('selftest: no trace with two samples')
  badt = json.loads(json.dumps(good))
  k = [i for i, e in enumerate(badt) if e['e'] == 'store'][1]
  badt[k]['key'] += 1
  r2, acc2 = tracecheck.validate('Monitor_trace', 'Monitor_trace.cfg', [dict(id=1, ev=good), dict(id=2, ev=badt)], workers=1)
  if 1 not in acc2 or 2 in acc2:
    raise tlc.TLCError('selftest: corrupted trace accepted (accepted ids %s)' % sorted(acc2))
  chk.cov['binding_selftest'] = 'a recorded trace with one sample key shifted by 1 ms is rejected'
  chk.cov['rule'] = ('body shapes {0..5 sleeps} x {100..1000 ms} x {returns, raises} sequentially; three shapes under DFS '
                     '(<= 1 preemption) and seeded random schedules; interval 500 ms; non-trivial = at least one sample')
  chk.assumptions += ['the monitor function is instantaneous in virtual time (mean sample duration 0)',
                      'time passes only when no thread can run']
  chk.log('%d runs of monitored phases, %d traces validated' % (len(runs), len(traces)))
  return chk.finish(explanation='Monitor.tla checked by TLC; event logs of real monitored phases validated against '
                    'Monitor_trace.tla in one TLC run; record rows compared with the observed store operations',
                    exhaustive=False)


def replay(path):
  with open(path) as fh:
    sc = json.load(fh)['scenario']
  sys.argv = sys.argv[:1]
  from vf import build, sched  # noqa: F401
  if 'schedule' in sc and sc['schedule'] != 'sequential':
    pol = sched.Replay(sc['schedule'])
  elif 'seed' in sc:
    pol = sched.RandomPolicy(random.Random(sc['seed']), 0.3)
  else:
    pol = sched.Sequential()
  s, box = make_run(sc['steps'], sc['step_ms'], sc['raises'])(pol)
  t = to_trace(box['log'])
  res, acc = tracecheck.validate('Monitor_trace', 'Monitor_trace.cfg', [dict(id=1, ev=t)], workers=1)
  bad = judge(box)
  if 1 not in acc or bad:
    print('VIOLATION property=X01 replay=%s\n  what: %s' % (path, bad[0] if bad else 'trace rejected'))
    return 1
  print('replay: the run conforms to Monitor.tla')
  return 0
