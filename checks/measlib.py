"""Driver shared by C06 and C10: replays histories emitted by Measurement.tla in
real phases of real tests.  Many histories are packed into one test run: each
history is one phase in the teardown sequence of a group (teardown sequences
run every node whatever the earlier ones did)."""
import itertools
import json
import math
import sys

from vf import tlaval, tlc
from vf.progs import tla as to_tla

# validator shapes over abstract values 0..4
SHAPES = {
    'A': dict(acc={1, 2, 3}, mar={1, 3}, rz=set()),
    'B': dict(acc={0, 1, 2, 3, 4}, mar=set(), rz=set()),
    'C': dict(acc={2, 3, 4}, mar={4}, rz={0}),
    'D': dict(acc=set(), mar=set(), rz=set()),
    'E': dict(acc={0, 1, 2}, mar={0, 1, 2}, rz={4}),
}
VLISTS = ['', 'A', 'C', 'AC', 'CA', 'DC', 'E', 'AE']
TRANSFORMS = ['none', 'inc', 'clamp']
S_OPS = {'SetS', 'NoCoord', 'Undeclared', 'Read'}
D_OPS = {'SetD', 'BadArity', 'NoCoord', 'Undeclared', 'Read'}

FAMILIES = [
    [0, 1, 2, 3, 4],
    [0.0, 0.5, 1.0, 1.5, 2.0],
    [None, float('nan'), 'x', 7, True],
    ['', 'a', 'b\n', 10 ** 30, -0.0],
    [0, 1, 1.0, True, 0.0],      # values that compare equal but are different values (type, representation)
]


def cfg(sv, st, dv, dt, ops, ev='', et='none', cv='', cvon=False):
  return dict(sv=[_shape(c) for c in sv], st=st, dv=[_shape(c) for c in dv], dt=dt,
              ev=[_shape(c) for c in ev], et=et, cv=[_shape(c) for c in cv], cvon=cvon,
              ops=frozenset(ops), svn=sv, dvn=dv, evn=ev, cvn=cv)


def _shape(c):
  s = SHAPES[c]
  return dict(acc=frozenset(s['acc']), mar=frozenset(s['mar']), rz=frozenset(s['rz']), n=c)


def configs(tier):
  out = []
  for sv in VLISTS:
    for st in TRANSFORMS:
      out.append(cfg(sv, st, '', 'none', S_OPS))
  for dv in VLISTS:
    for dt in TRANSFORMS:
      out.append(cfg('', 'none', dv, dt, D_OPS))
  for sv, dv in (('A', 'C'), ('AC', 'E'), ('E', 'A')):
    out.append(cfg(sv, 'inc', dv, 'clamp', S_OPS | D_OPS))
  # conditional validators (validate_on): applied iff the diagnosis existed when the phase started
  for sv, cv in (('', 'A'), ('B', 'C'), ('A', 'E'), ('E', 'D')):
    for cvon in (False, True):
      out.append(cfg(sv, 'none', '', 'none', {'SetS', 'Read'}, cv=cv, cvon=cvon))
  # two dimensioned measurements: the validator of one raises at phase end
  for dv, ev in (('C', 'A'), ('C', 'C'), ('A', 'C'), ('E', 'D'), ('', 'E')):
    out.append(cfg('', 'none', dv, 'none', {'SetD', 'SetE', 'Read'}, ev=ev, et='inc'))
  return out


def module(cfgs):
  body = ',\n'.join(to_tla({k: v for k, v in c.items() if k not in ('svn', 'dvn', 'evn', 'cvn')}) for c in cfgs)
  return '---- MODULE MCMeas ----\nEXTENDS Measurement\nMCCfgs == <<\n%s\n>>\n====\n' % body


CFG_EMIT = '''CONSTANT Cfgs <- MCCfgs
CONSTANT MaxOps = %d
SPECIFICATION Spec
INVARIANT Emit
CHECK_DEADLOCK FALSE
'''
CFG_MC = '''CONSTANT Cfgs <- MCCfgs
CONSTANT MaxOps = %d
SPECIFICATION Spec
VIEW View
INVARIANT TypeOK
INVARIANT UnsetIffNeverAssigned
INVARIANT OutcomeFormula
INVARIANT MarginalFormula
INVARIANT NoPartiallySet
INVARIANT DimOutcomeFormula
INVARIANT SecondDimOutcome
INVARIANT RaisingSurfaces
INVARIANT DistinctCoords
PROPERTY OrderStable
PROPERTY RejectedChangeNothing
CHECK_DEADLOCK FALSE
'''


# ----------------------------------------------------------------------
# concretisation

class ValidatorError(Exception):
  pass


class Tok:
  """maps concrete values <-> abstract indices for one family"""

  def __init__(self, fam):
    self.vals = FAMILIES[fam]

  def idx(self, x):
    for i, v in enumerate(self.vals):
      if v is x:
        return i
    for i, v in enumerate(self.vals):
      if isinstance(v, float) and isinstance(x, float) and math.isnan(v) and math.isnan(x):
        return i
      if type(v) is type(x) and v == x and not (isinstance(v, float) and math.isnan(v)):
        if isinstance(v, float) and math.copysign(1, v) != math.copysign(1, x):
          continue
        return i
    return 'other:%r' % (x,)

  def idx_rendered(self, x):
    """index of the family value whose base-type rendering is x (NaN/inf are
    rendered as their str() by convert_to_base_types(json_safe=True))"""
    if isinstance(x, str) and x in ('nan', 'inf', '-inf'):
      for i, v in enumerate(self.vals):
        if isinstance(v, float) and str(v) == x:
          return i
    return self.idx(x)


class AbsValidator:
  """a validator given by sets of abstract values (deep-copyable, printable)"""

  def __init__(self, shape, tok, dim=False):
    self.shape = shape
    self.tok = tok
    self.dim = dim

  def _vals(self, value):
    if self.dim:
      return [self.tok.idx(row[-1]) for row in value]
    return [self.tok.idx(value)]

  def __call__(self, value):
    vs = self._vals(value)
    if any(v in self.shape['rz'] for v in vs):
      raise ValidatorError('validator %s raises' % self.shape['n'])
    return all(v in self.shape['acc'] for v in vs)

  def is_marginal(self, value):
    return any(v in self.shape['mar'] for v in self._vals(value))

  def __str__(self):
    return 'abs-%s' % self.shape['n']

  def __deepcopy__(self, memo):
    return self


def transform(name, tok):
  if name == 'none':
    return None
  def f(x):
    i = tok.idx(x)
    j = (i + 1) % 5 if name == 'inc' else min(i, 2)
    return tok.vals[j]
  return f


def render_scratch(meas, tok):
  """independent from-scratch projection of a Measurement (public attributes)"""
  mv = meas.measured_value
  if meas.dimensions:
    rows = [[c[0], tok.idx(v)] for c, v in mv.value_dict.items()] if mv.is_value_set else []
    return rows, meas.outcome.name, bool(meas.marginal)
  val = tok.idx(mv.value) if mv.is_value_set else -1
  return val, meas.outcome.name, bool(meas.marginal)


def project_base(bt, tok, dim):
  """projection of the base-type rendering of one measurement"""
  if dim:
    rows = [[r[0], tok.idx_rendered(r[-1])] for r in bt.get('measured_value', [])]
    return rows, bt.get('outcome')
  if 'measured_value' in bt:
    return tok.idx_rendered(bt['measured_value']), bt.get('outcome')
  return -1, bt.get('outcome')


def run_batch(items):
  """items: list of (cfg, hist, fam).  Returns list of mismatch lists (one per
  item): (category, message)."""
  import openhtf as htf
  from openhtf.core import measurements as m_lib
  from vf import build
  results = [[] for _ in items]
  phases = []
  late = []

  def make(k, c, hist, fam):
    tok = Tok(fam)
    bad = results[k]
    ops = [h for h in hist if h[0][0] != 'EndPhase']

    def body(state, **_kw):
      api = state.test_api
      late.append(api.measurements.late)
      ps = state.running_phase_state
      for op, exc, obs in ops:
        name = op[0]
        got = ''
        try:
          if name == 'SetS':
            api.measurements.s = tok.vals[op[1]]
          elif name == 'SetD':
            api.measurements.d[op[1]] = tok.vals[op[2]]
          elif name == 'SetE':
            api.measurements.e[op[1]] = tok.vals[op[2]]
          elif name == 'BadArity':
            api.measurements.d[1, 2] = tok.vals[op[1]]
          elif name == 'NoCoord':
            api.measurements.d = tok.vals[op[1]]
          elif name == 'Undeclared':
            api.measurements.nope = tok.vals[op[1]]
        except Exception as e:  # pylint: disable=broad-except
          got = type(e).__name__
        if got != exc:
          bad.append(('exception', '%s raised %r to the body, model says %r' % (name, got, exc)))
        s_mem = render_scratch(ps.measurements['s'], tok)
        d_mem = render_scratch(ps.measurements['d'], tok)
        e_mem = render_scratch(ps.measurements['e'], tok)
        exp_s, exp_d = tuple(obs['s']), (list(map(list, obs['d'][0])), obs['d'][1], obs['d'][2])
        exp_e = (list(map(list, obs['e'][0])), obs['e'][1], obs['e'][2])
        if (e_mem[0], e_mem[1], e_mem[2]) != exp_e:
          bad.append(('state', 'after %s second dimensioned measurement (rows, outcome, marginal) is %s, model says %s'
                      % (name, e_mem, exp_e)))
        if tuple(s_mem) != exp_s:
          bad.append(('state', 'after %s scalar measurement (value, outcome, marginal) is %s, model says %s'
                      % (name, s_mem, exp_s)))
        if (d_mem[0], d_mem[1], d_mem[2]) != exp_d:
          bad.append(('state', 'after %s dimensioned measurement (rows, outcome, marginal) is %s, model says %s'
                      % (name, d_mem, exp_d)))
        if name == 'Read':
          live = ps.as_base_types()['measurements']
          ls = project_base(live['s'], tok, False)
          ld = project_base(live['d'], tok, True)
          le = project_base(live['e'], tok, True)
          if (le[0], le[1]) != (e_mem[0], e_mem[1]):
            bad.append(('live_view', 'live view of the second dimensioned measurement is %s, in-memory state is %s'
                        % (le, e_mem[:2])))
          if ls != (s_mem[0], s_mem[1]):
            bad.append(('live_view', 'live view of the scalar measurement is %s, in-memory state is %s'
                        % (ls, s_mem[:2])))
          if (ld[0], ld[1]) != (d_mem[0], d_mem[1]):
            bad.append(('live_view', 'live view of the dimensioned measurement is %s, in-memory state is %s'
                        % (ld, d_mem[:2])))
      return None

    body.__name__ = 'h%d' % k
    ms = m_lib.Measurement('s')
    for sh in c['sv']:
      ms.with_validator(AbsValidator(sh, tok))
    for sh in c['cv']:
      ms.validate_on({build.R.a: AbsValidator(sh, tok)})
    t = transform(c['st'], tok)
    if t:
      ms.with_transform(t)
    md = m_lib.Measurement('d').with_dimensions('x')
    for sh in c['dv']:
      md.with_validator(AbsValidator(sh, tok, dim=True))
    t = transform(c['dt'], tok)
    if t:
      md.with_transform(t)
    me = m_lib.Measurement('e').with_dimensions('x')
    for sh in c['ev']:
      me.with_validator(AbsValidator(sh, tok, dim=True))
    t = transform(c['et'], tok)
    if t:
      me.with_transform(t)
    ph = htf.PhaseOptions(name='h%d' % k, requires_state=True)(body)
    # a dimensioned measurement the body only takes a handle of (kept past the end of the phase and written by
    # a later phase): "No measurement leaves a phase PARTIALLY_SET" - not in the model, judged on its own below
    ml = m_lib.Measurement('late').with_dimensions('x')
    ph = htf.measures(ms, md, me, ml)(ph)
    if k % 2:
      # a derived phase keeps every attached validator ("every attached validator accepts ...")
      ph = ph.with_args(label='l%d' % k)
    return ph

  for k, (c, hist, fam) in enumerate(items):
    phases.append(make(k, c, hist, fam))
  cvon = any(c['cvon'] for c, _, _ in items)
  assert all(c['cvon'] == cvon for c, _, _ in items if c['cv']), 'batch mixes cvon'
  pre = []
  if cvon:
    from openhtf.core import diagnoses_lib

    def issue(phase_record):
      return htf.Diagnosis(build.R.a, 'conditional validators on')
    pre = [htf.diagnose(diagnoses_lib.PhaseDiagnoser(build.R, name='issue', run_func=issue))(
        htf.PhaseOptions(name='issue_diag')(lambda test: None))]
  def late_writer(test):
    for h in late:
      h[0] = 1
  test = htf.Test(htf.PhaseGroup(main=pre, teardown=phases + [htf.PhaseOptions(name='late_writer')(late_writer)]))
  out = []
  test.add_output_callbacks(out.append)
  build.CONF.load(allow_unset_measurements=True, _override=True)
  try:
    test.execute()
  finally:
    build.CONF.load(allow_unset_measurements=False, _override=True)
  rec = out[0]
  rec_bt = rec.as_base_types()
  if pre:
    del rec.phases[0]
    rec_bt = dict(rec_bt, phases=rec_bt['phases'][1:])
  if rec.phases and rec.phases[-1].name == 'late_writer':
    del rec.phases[-1]
    rec_bt = dict(rec_bt, phases=rec_bt['phases'][:-1])
  if len(rec.phases) != len(items):
    for r in results:
      r.append(('harness', 'batch produced %d phase records for %d histories' % (len(rec.phases), len(items))))
    return results
  for k, (c, hist, fam) in enumerate(items):
    tok = Tok(fam)
    bad = results[k]
    end = hist[-1]
    assert end[0][0] == 'EndPhase'
    obs = end[2]
    p = rec.phases[k]
    s_mem = render_scratch(p.measurements['s'], tok)
    d_mem = render_scratch(p.measurements['d'], tok)
    e_mem = render_scratch(p.measurements['e'], tok)
    exp_s, exp_d = tuple(obs['s']), (list(map(list, obs['d'][0])), obs['d'][1], obs['d'][2])
    exp_e = (list(map(list, obs['e'][0])), obs['e'][1], obs['e'][2])
    if (e_mem[0], e_mem[1], e_mem[2]) != exp_e:
      bad.append(('final', 'recorded second dimensioned measurement (rows, outcome, marginal) is %s, model says %s'
                  % (e_mem, exp_e)))
    if tuple(s_mem) != exp_s:
      bad.append(('final', 'recorded scalar measurement (value, outcome, marginal) is %s, model says %s'
                  % (s_mem, exp_s)))
    if (d_mem[0], d_mem[1], d_mem[2]) != exp_d:
      bad.append(('final', 'recorded dimensioned measurement (rows, outcome, marginal) is %s, model says %s'
                  % (d_mem, exp_d)))
    if p.measurements['late'].outcome.name == 'PARTIALLY_SET':
      bad.append(('final', 'a dimensioned measurement whose handle was kept past the end of the phase is recorded '
                  'PARTIALLY_SET after a later write through that handle'))
    res = build.result_kind(p.result)
    exp_res = 'EXC' if obs['perr'] == 'EXC' else 'CONTINUE'
    if res != exp_res:
      bad.append(('phase_error', 'phase result is %s, model says %s' % (res, exp_res)))
    # C10: the record's base-type rendering vs the in-memory record
    pbt = rec_bt['phases'][k]['measurements']
    ls = project_base(pbt['s'], tok, False)
    ld = project_base(pbt['d'], tok, True)
    if ls != (s_mem[0], s_mem[1]):
      bad.append(('record_view', 'rendered record shows scalar measurement %s, in-memory record has %s'
                  % (ls, s_mem[:2])))
    if (ld[0], ld[1]) != (d_mem[0], d_mem[1]):
      bad.append(('record_view', 'rendered record shows dimensioned measurement %s, in-memory record has %s'
                  % (ld, d_mem[:2])))
  return results


BATCH = 40


def work(args):
  """pool worker: (cfgs, text, fam_base, nfam)"""
  sys.argv = sys.argv[:1]
  cfgs, text, fam_base, nfam = args
  hists = tlaval.parse_many(text, 'HIST')
  items = []
  for n, (ci, hist) in enumerate(hists):
    for f in range(nfam):
      items.append((cfgs[ci - 1], hist, (fam_base + n + f) % len(FAMILIES)))
  out = dict(n=len(items), bad=[], sample=None, nontrivial=0, cats={})
  items.sort(key=lambda it: bool(it[0]['cvon']))       # batches never mix cvon
  split = next((i for i, it in enumerate(items) if it[0]['cvon']), len(items))
  off, on = items[:split], items[split:]
  batches = [off[i:i + BATCH] for i in range(0, len(off), BATCH)] + \
            [on[i:i + BATCH] for i in range(0, len(on), BATCH)]
  for chunk in batches:
    res = run_batch(chunk)
    for (c, hist, fam), bad in zip(chunk, res):
      if len(hist) >= 3:
        out['nontrivial'] += 1
      for cat, msg in bad:
        out['cats'][cat] = out['cats'].get(cat, 0) + 1
      if bad and len(out['bad']) < 8:
        out['bad'].append(dict(cfg=dict(sv=c['svn'], st=c['st'], dv=c['dvn'], dt=c['dt'], ev=c['evn'], et=c['et'], cv=c['cvn'], cvon=c['cvon']),
                               hist=hist, fam=fam, mismatches=bad))
      if out['sample'] is None and len(hist) >= 3:
        out['sample'] = dict(cfg=dict(sv=c['svn'], st=c['st'], dv=c['dvn'], dt=c['dt']),
                             ops=[h[0] for h in hist], final=hist[-1][2])
  return out


def replay_one(sc):
  c = cfg(sc['cfg']['sv'], sc['cfg']['st'], sc['cfg']['dv'], sc['cfg']['dt'], S_OPS | D_OPS | {'SetE'},
          ev=sc['cfg'].get('ev', ''), et=sc['cfg'].get('et', 'none'), cv=sc['cfg'].get('cv', ''),
          cvon=sc['cfg'].get('cvon', False))
  return run_batch([(c, sc['hist'], sc['fam'])])[0]
