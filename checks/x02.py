"""X02 (extension, not one of the listed properties) - polling / retry helpers
of openhtf.util.timeouts.  Spec: specs/Retry.tla.

TLC checks AtLeastOnce / AtMostLimit / ValidEnds and emits every complete
scenario (mode x parameters x script of what the k-th call does); each is run
on the real helper under virtual time; number of calls, outcome (returned
value or raised exception class) and elapsed time are compared."""
import json
import multiprocessing as mp
import sys

from vf import common, tlc  # noqa: F401


class CaughtErr(Exception):
  pass


class OtherErr(Exception):
  pass


def run_row(row):
  import time
  from vf import sched
  from openhtf.util import timeouts
  box = {}

  def main():
    calls = [0]
    t0 = time.time()

    def fn():
      calls[0] += 1
      if calls[0] > len(row['script']):
        raise AssertionError('script exhausted')
      r = row['script'][calls[0] - 1]
      if row['D']:
        time.sleep(row['D'])
      if r == 'ce':
        raise CaughtErr('caught class')
      if r == 'xe':
        raise OtherErr('other class')
      return r
    try:
      if row['mode'] == 'loop':
        T = None if row['T'] == 99 else row['T']
        res = timeouts.loop_until_timeout_or_valid(T, fn, lambda x: x == 'ok', sleep_s=row['S'])
      else:
        res = timeouts.retry_until_valid_or_limit_reached(fn, row['L'], lambda x: x == 'ok', sleep_s=row['S'],
                                                          catch_exceptions=(CaughtErr,))
      out = ['return', 'none' if res is None else res]
    except CaughtErr:
      out = ['raise', 'ce']
    except OtherErr:
      out = ['raise', 'xe']
    except AssertionError:
      out = ['raise', 'called more often than the model']
    box.update(calls=calls[0], outcome=out, elapsed=int(round(time.time() - t0)))
  s = sched.Sched(max_steps=100000)
  try:
    s.run(main)
  except (sched.Deadlock, sched.StepBudget) as e:
    return ['the helper never returns (%s)' % type(e).__name__]
  bad = []
  for k in ('calls', 'outcome', 'elapsed'):
    if box.get(k) != row[k]:
      bad.append('%s helper: %s is %r, model says %r' % (row['mode'], k, box.get(k), row[k]))
  return bad


def work(rows):
  sys.argv = sys.argv[:1]
  import openhtf  # noqa: F401
  out = []
  for r in rows:
    for b in run_row(r):
      out.append((b, r))
  return len(rows), out


def main(chk):
  res = tlc.must_pass(tlc.run('Retry', 'Retry_mc.cfg', workers=4), 'Retry design check')
  chk.add_tlc('Retry (AtLeastOnce, AtMostLimit, ValidEnds)', res)
  rows = [r[0] for r in res.prints('ROW')]
  if len(rows) < 100:
    raise tlc.TLCError('vacuity: only %d scenarios emitted' % len(rows))
  with mp.Pool(8) as pool:
    outs = pool.map(work, [rows[k::8] for k in range(8)])
  import re
  for n, bad in outs:
    chk.traces += n
    chk.nontrivial += n
    for sig, row in bad:
      chk.violation(re.sub(r' is .*', ' differs from the model', sig), dict(row=row, detail=sig))
  chk.sample(rows[len(rows) // 2])
  # binding self-test
  r0 = dict(next(r for r in rows if r['mode'] == 'retry' and r['calls'] >= 2))
  r0['calls'] += 1
  if not run_row(r0):
    raise tlc.TLCError('selftest: corrupted expectation not detected')
  chk.cov['binding_selftest'] = 'corrupted expected call count detected'
  chk.cov['rule'] = 'every complete scenario of Retry.tla (2 helpers x timeouts/limits x sleeps x call durations x scripts <= 4 calls)'
  chk.log('%d scenarios replayed' % len(rows))
  return chk.finish(explanation='Retry.tla checked by TLC; every emitted scenario run on the real helpers under virtual time',
                    exhaustive=True)


def replay(path):
  with open(path) as fh:
    sc = json.load(fh)['scenario']
  sys.argv = sys.argv[:1]
  import openhtf  # noqa: F401
  bad = run_row(sc['row'])
  if bad:
    print('VIOLATION property=X02 replay=%s\n  what: %s' % (path, bad[0]))
    return 1
  print('replay: the helper behaves as the model')
  return 0
