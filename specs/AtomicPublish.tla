---------------------------- MODULE AtomicPublish ----------------------------
(* C17: publishing a serialized record to a destination path through a staging
   file (output.callbacks.{Atomic, OutputToFile, OutputToJSON},
   util.atomic_write).

   File-system state: the destination holds nothing, its previous complete
   content, the complete new serialization, or a truncated one; the staging
   file holds the first k of N chunks and is open or closed.  Crash can happen
   in every state (the invariant is a state invariant, so it covers every crash
   point).  PublishOnError = TRUE models the protocol that closes-and-moves in a
   `finally` (the staging file is moved over the destination even when
   serialization failed) and is used only to show the invariant is sensitive. *)
EXTENDS Naturals, Sequences, TLC

CONSTANTS N,               \* number of chunks of the complete serialization
          HadOld,          \* the destination existed before
          PublishOnError

VARIABLES dest,     \* "absent" | "old" | "new" | "partial"
          tmp,      \* "none" | "open" | "closed"
          written,  \* chunks in the staging file
          failed,   \* a serializer / write / close fault occurred
          phase     \* "start" "writing" "closing" "publishing" "cleanup" "done"
vars == <<dest, tmp, written, failed, phase>>

Init == /\ dest = IF HadOld THEN "old" ELSE "absent"
        /\ tmp = "none" /\ written = 0 /\ failed = FALSE /\ phase = "start"

CreateTmp == /\ phase = "start" /\ tmp' = "open" /\ phase' = "writing"
             /\ UNCHANGED <<dest, written, failed>>
WriteChunk == /\ phase = "writing" /\ written < N /\ ~failed
              /\ written' = written + 1 /\ UNCHANGED <<dest, tmp, failed, phase>>
\* the serializer raises after `written` chunks, or the write itself fails
Fault == /\ phase \in {"writing", "closing"} /\ ~failed
         /\ failed' = TRUE /\ phase' = "closing" /\ UNCHANGED <<dest, tmp, written>>
DoneWriting == /\ phase = "writing" /\ written = N /\ ~failed
               /\ phase' = "closing" /\ UNCHANGED <<dest, tmp, written, failed>>
CloseTmp == /\ phase = "closing" /\ tmp = "open"
            /\ tmp' = "closed"
            /\ phase' = IF failed /\ ~PublishOnError THEN "cleanup" ELSE "publishing"
            /\ UNCHANGED <<dest, written, failed>>
\* rename(staging, destination): atomic on one file system
Publish == /\ phase = "publishing" /\ tmp = "closed"
           /\ dest' = IF written = N THEN "new" ELSE "partial"
           /\ tmp' = "none" /\ phase' = "done" /\ UNCHANGED <<written, failed>>
Cleanup == /\ phase = "cleanup" /\ tmp' = "none" /\ phase' = "done"
           /\ UNCHANGED <<dest, written, failed>>
\* a process kill leaves the file system as it is: nothing to model but the
\* possibility to stop, which a state invariant already covers
Next == CreateTmp \/ WriteChunk \/ Fault \/ DoneWriting \/ CloseTmp \/ Publish \/ Cleanup
Spec == Init /\ [][Next]_vars

(* "the destination path either does not exist, still holds its previous
   complete content, or holds the complete new serialization, never a truncated
   or partially written record" *)
AtomicDest == dest \in {"absent", "old", "new"}
(* "On success the destination holds exactly the serialized record" *)
SuccessPublishes == (phase = "done" /\ ~failed) => dest = "new"
FailureKeepsOld == (phase = "done" /\ failed) => dest = (IF HadOld THEN "old" ELSE "absent")
NoStagingLeftBehind == (phase = "done") => tmp = "none"
==============================================================================
