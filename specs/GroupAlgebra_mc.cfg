CONSTANTS
  Pool <- MCPool
  MaxOps = 3
SPECIFICATION Spec
INVARIANT CombineAssociative
INVARIANT CombineOrder
INVARIANT WrapIsCombine
INVARIANT ContextIsNew
INVARIANT Emit
PROPERTY OperandsUntouched
CHECK_DEADLOCK FALSE
