CONSTANTS
  TIMEOUTS = FALSE
  NOTIFYEXIT = TRUE
  FIXED = TRUE
  FIXALL = FALSE
SPECIFICATION Spec
PROPERTY Termination
