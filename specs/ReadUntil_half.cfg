CONSTANTS
  FIXED = TRUE
  FIXALL = FALSE
SPECIFICATION Spec
PROPERTY Termination
