CONSTANT InPlace = TRUE
INIT PInit
NEXT PNext
INVARIANT LiveRunGetsMessage
CHECK_DEADLOCK FALSE
