CONSTANTS
  BodySteps = 2
  AtomicProbe = FALSE
SPECIFICATION Spec
INVARIANT KillBeforeStart
INVARIANT KillAfterBodyNoEffect
INVARIANT ConfinedToBody
INVARIANT NoPendingAfterFinish
INVARIANT FlagBeforeLockMeansNoBody
PROPERTY Termination
