---------------------------- MODULE AtomicPublish_trace ----------------------------
(* Trace validation for C17: the sequence of file-system operations recorded
   from the real callback (per injected fault) is replayed on AtomicPublish's
   state and AtomicDest is checked after every operation, i.e. at every crash
   point.  The trace spec follows the recorded operations, whatever they are:
   it is the INVARIANT that judges them.  Events: create, write (one chunk of
   n), fault, close, rename, remove. *)
EXTENDS AtomicPublish, Json, IOUtils

Traces == JsonDeserialize(IOEnv.TRACE_FILE)
VARIABLES tid, l
tvars == <<vars, tid, l>>
Ev == Traces[tid].ev
E == Ev[l]
TN == Traces[tid].n           \* chunks of the complete serialization of this trace

TInit == /\ tid \in 1..Len(Traces) /\ l = 1
         /\ dest = (IF Traces[tid].old THEN "old" ELSE "absent")
         /\ tmp = "none" /\ written = 0 /\ failed = FALSE /\ phase = "start"

Step == l <= Len(Ev) /\ l' = l + 1 /\ UNCHANGED tid
TCreate == Step /\ E.e = "create" /\ tmp' = "open" /\ written' = 0 /\ phase' = "writing" /\ UNCHANGED <<dest, failed>>
TWrite == Step /\ E.e = "write" /\ tmp = "open" /\ written' = written + 1 /\ UNCHANGED <<dest, tmp, failed, phase>>
TFault == Step /\ E.e = "fault" /\ failed' = TRUE /\ UNCHANGED <<dest, tmp, written, phase>>
TClose == Step /\ E.e = "close" /\ tmp' = "closed" /\ UNCHANGED <<dest, written, failed, phase>>
TRename == Step /\ E.e = "rename" /\ tmp # "none"
           /\ dest' = (IF written = TN /\ tmp = "closed" THEN "new" ELSE "partial")
           /\ tmp' = "none" /\ phase' = "done" /\ UNCHANGED <<written, failed>>
TRemove == Step /\ E.e = "remove" /\ tmp' = "none" /\ phase' = "done" /\ UNCHANGED <<dest, written, failed>>
TDirect == Step /\ E.e = "direct_write"           \* a write straight into the destination
           /\ dest' = "partial" /\ UNCHANGED <<tmp, written, failed, phase>>
TNext == TCreate \/ TWrite \/ TFault \/ TClose \/ TRename \/ TRemove \/ TDirect
TSpec == TInit /\ [][TNext]_tvars
Accept == (l = Len(Ev) + 1) => PrintT(<<"ACCEPT", Traces[tid].id>>)
TraceAtomicDest == dest \in {"absent", "old", "new"}
TraceEnd == (l = Len(Ev) + 1) =>
   /\ (~failed => dest = "new")
   /\ (failed => dest = (IF Traces[tid].old THEN "old" ELSE "absent"))
\* per-trace verdicts for batch validation (PrintT is TRUE, so these never stop TLC)
Judge == (~TraceAtomicDest) => PrintT(<<"BAD", Traces[tid].id, l - 1, dest>>)
JudgeEnd == (~TraceEnd) => PrintT(<<"BADEND", Traces[tid].id, dest, failed>>)
====================================================================================
