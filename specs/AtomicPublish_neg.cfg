CONSTANTS
  N = 3
  HadOld = TRUE
  PublishOnError = TRUE
SPECIFICATION Spec
INVARIANT AtomicDest
INVARIANT SuccessPublishes
INVARIANT FailureKeepsOld
INVARIANT NoStagingLeftBehind
CHECK_DEADLOCK FALSE
