------------------------------ MODULE Retry ------------------------------
(* EXTENSION beyond the listed properties: the polling / retry helpers of
   openhtf.util.timeouts, which plugs build their waiting on.

     loop_until_timeout_or_valid(timeout_s, function, validation_fn, sleep_s)
       calls function; returns its result as soon as it validates or the
       timeout has expired (checked AFTER the call: "We ensure function is
       called at least once regardless of timeout"); otherwise sleeps sleep_s
       and calls again.
     retry_until_valid_or_limit_reached(method, limit, validation_fn, sleep_s,
                                        catch_exceptions)
       calls method at most `limit` times (at least once), sleeping sleep_s
       between attempts, until a result validates; an exception listed in
       catch_exceptions counts as a failed attempt, except on the last attempt,
       where it propagates; other exceptions always propagate.

   A scenario fixes the mode, the parameters and the script of what the k-th
   call does: "ok" (valid result), "no" (invalid result), "ce" (raises a caught
   exception class), "xe" (raises another exception), each call taking D time
   units.  Time is discrete; sleep and calls are the only things that take
   time.  The specification computes the outcome step by step; the driver runs
   the real helper under virtual time with the same script and compares the
   number of calls, the outcome and the elapsed time. *)
EXTENDS Integers, Sequences, TLC

CONSTANTS Modes,      \* subset of {"loop", "retry"}
          Timeouts,   \* timeout_s values for "loop" (99 = None: never expires)
          Limits,     \* limit values for "retry"
          Sleeps,     \* sleep_s values
          Durs,       \* duration of one call
          MaxCalls    \* length of the script

Results == {"ok", "no", "ce", "xe"}

VARIABLES mode, T, L, S, D, script,   \* the scenario
          now, calls, state, outcome  \* state: "call" | "slept" | "done"
vars == <<mode, T, L, S, D, script, now, calls, state, outcome>>

Scripts == UNION {[1..n -> Results] : n \in 1..MaxCalls}

Init == /\ mode \in Modes
        /\ T \in (IF mode = "loop" THEN Timeouts ELSE {0})
        /\ L \in (IF mode = "retry" THEN Limits ELSE {0})
        /\ S \in Sleeps /\ D \in Durs
        /\ script \in Scripts
        \* a script must be long enough for the run it drives, and not longer than needed
        /\ now = 0 /\ calls = 0 /\ state = "call" /\ outcome = "none"

R(k) == script[k]
Expired == T # 99 /\ now >= T

(* one call of the function and the decision that follows it *)
Call ==
  /\ state = "call" /\ calls < Len(script)
  /\ LET k == calls + 1
         r == R(k)
         t == now + D IN
     /\ calls' = k /\ now' = t
     /\ IF mode = "loop"
        THEN IF r \in {"ce", "xe"} THEN state' = "done" /\ outcome' = <<"raise", r>>      \* nothing is caught
             ELSE IF r = "ok" \/ (T # 99 /\ t >= T) THEN state' = "done" /\ outcome' = <<"return", r>>
             ELSE state' = "sleep" /\ UNCHANGED outcome
        ELSE \* retry: remaining = L - k after this attempt
             IF r = "xe" THEN state' = "done" /\ outcome' = <<"raise", r>>
             ELSE IF r = "ce" /\ k >= L THEN state' = "done" /\ outcome' = <<"raise", r>>
             ELSE IF r = "ok" THEN state' = "done" /\ outcome' = <<"return", r>>
             ELSE IF k >= L THEN state' = "done" /\ outcome' = <<"return", IF r = "ce" THEN "none" ELSE r>>
             ELSE state' = "sleep" /\ UNCHANGED outcome
  /\ UNCHANGED <<mode, T, L, S, D, script>>

Sleep == /\ state = "sleep"
         /\ now' = now + S /\ state' = "call"
         /\ UNCHANGED <<mode, T, L, S, D, script, calls, outcome>>

Next == Call \/ Sleep
Spec == Init /\ [][Next]_vars

----------------------------------------------------------------------
Done == state = "done"
AtLeastOnce == Done => calls >= 1
AtMostLimit == (mode = "retry") => calls <= L
(* a valid result ends the loop at once and is what is returned *)
ValidEnds == \A k \in 1..calls : (R(k) = "ok") => (k = calls /\ Done /\ outcome = <<"return", "ok">>)
(* the run uses its whole script (scenarios with unused script entries are duplicates) *)
Complete == Done /\ calls = Len(script)
Emit == Complete => PrintT(<<"ROW", [mode |-> mode, T |-> T, L |-> L, S |-> S, D |-> D, script |-> script,
                                     calls |-> calls, outcome |-> outcome, elapsed |-> now]>>)
======================================================================
