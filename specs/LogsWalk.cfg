CONSTANT InPlace = FALSE
INIT PInit
NEXT PNext
INVARIANT LiveRunGetsMessage
CHECK_DEADLOCK FALSE
