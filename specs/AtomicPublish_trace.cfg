CONSTANTS
  N = 3
  HadOld = TRUE
  PublishOnError = FALSE
SPECIFICATION TSpec
INVARIANT Accept
INVARIANT Judge
INVARIANT JudgeEnd
CHECK_DEADLOCK FALSE
