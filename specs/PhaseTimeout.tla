---------------------------- MODULE PhaseTimeout ----------------------------
(* C12 (timeout half): PhaseExecutorThread.join_or_die with discrete time in
   half seconds.  A phase with timeout T whose body needs D time units (Inf =
   never returns, and ignores the kill) inside a group with a teardown phase.

   The executor waits for the body in polls of at most Poll units but never
   beyond the deadline ("A phase still running when its timeout expires is
   abandoned"), so the outcome depends only on D < T:
     D < T  : the body's own result, never TIMEOUT
     D > T  : TIMEOUT; teardown and plug tearDown still run; the executor
              proceeds at time T (bounded delay) even if the body never returns
   D = T is a tie that may go either way and is not generated.

   L (linger): the phase thread stays alive for L more units after the body
   returned and its outcome was stored (its finish handler is slow).  A body
   that returned before the deadline keeps its own result even if its thread is
   still alive at the deadline (D < T < D + L); the executor then proceeds at
   the deadline. *)
EXTENDS Integers, Sequences, FiniteSets, TLC

CONSTANTS Ts, Ds, Ls, Poll, Inf, Results

VARIABLES T, D, L, res,   \* parameters of this run: timeout, duration, linger, the body's own result
          now,            \* virtual time
          phase,          \* "joining" "decided"
          outcome,        \* "" | "OWN" | "TIMEOUT"
          proceedAt,      \* time at which the executor moved on
          killed,
          polls           \* number of join() calls
vars == <<T, D, L, res, now, phase, outcome, proceedAt, killed, polls>>

Init == /\ T \in Ts /\ D \in Ds /\ D # T /\ res \in Results /\ L \in Ls /\ (D = Inf => L = 0) /\ D + L # T
        /\ now = 0 /\ phase = "joining" /\ outcome = "" /\ proceedAt = -1 /\ killed = FALSE /\ polls = 0

Min(a, b) == IF a < b THEN a ELSE b

(* while time.monotonic() < deadline: self.join(min(poll, remaining)); stop when the thread ended *)
Join ==
  /\ phase = "joining" /\ now < T
  /\ LET E == D + L      \* the thread ends at E; join() returns then, or when its timeout is over
         wake == Min(now + Min(Poll, T - now), IF D = Inf THEN now + Poll + T ELSE (IF E > now THEN E ELSE now)) IN
     /\ now' = wake /\ polls' = polls + 1
     /\ IF D # Inf /\ E <= wake
        THEN phase' = "decided" /\ outcome' = "OWN" /\ proceedAt' = wake /\ UNCHANGED killed
        ELSE UNCHANGED <<phase, outcome, proceedAt, killed>>
  /\ UNCHANGED <<T, D, L, res>>

Expire ==
  /\ phase = "joining" /\ now >= T
  /\ phase' = "decided"
  /\ IF D # Inf /\ D <= now
     THEN outcome' = "OWN" /\ UNCHANGED killed
     ELSE outcome' = "TIMEOUT" /\ killed' = TRUE
  /\ proceedAt' = now
  /\ UNCHANGED <<T, D, L, res, now, polls>>

Next == Join \/ Expire
Spec == Init /\ [][Next]_vars

Decided == phase = "decided"
(* "a body that returns before its deadline is never reported as timed out and keeps its own result" *)
NoFalseTimeout == (Decided /\ D # Inf /\ D < T) => outcome = "OWN"
(* "A phase still running when its timeout expires is abandoned: the run reports TIMEOUT" *)
TimeoutWhenOverdue == (Decided /\ (D = Inf \/ D > T)) => outcome = "TIMEOUT"
(* "the executor proceeds within a bounded delay after the deadline even if the body never returns" *)
BoundedDelay == Decided => proceedAt <= T
Emit == Decided => PrintT(<<"ROW", [T |-> T, D |-> D, L |-> L, res |-> res, outcome |-> outcome, proceedAt |-> proceedAt]>>)
======================================================================
