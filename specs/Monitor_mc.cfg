CONSTANTS
  I = 2
  MaxT = 7
SPECIFICATION Spec
INVARIANT RowsAreCalls
INVARIANT KeysIncrease
INVARIANT NeverEarly
INVARIANT JoinedMeansDead
PROPERTY NoLateSample
PROPERTY PhaseReturns
CHECK_DEADLOCK FALSE
