CONSTANTS
  Uids = {"ab", "abc"}
  MaxOps = 5
  InPlace = FALSE
SPECIFICATION Spec
INVARIANT HandlersAreLiveRuns
INVARIANT NoHandlerAfterEnd
INVARIANT InOrderOnce
INVARIANT Emit
INVARIANT EmitTable
CHECK_DEADLOCK FALSE
