---------------------------- MODULE AdbConnect ----------------------------
(* C15 (first half): the CNXN/AUTH handshake of AdbConnection.connect().

   The device is a script of replies; an exhausted script is silence (the read
   times out).  Replies: "CNXN" (well-formed banner), "CNXNBAD" (banner without
   the two colons), "TOKEN" (AUTH challenge of type TOKEN, carrying its script
   position as payload), "AUTHX" (AUTH of another type), "NOISE" (any other
   packet). *)
EXTENDS Integers, Sequences, FiniteSets, TLC

CONSTANTS MaxLen, MaxKeys
Alphabet == {"CNXN", "CNXNBAD", "TOKEN", "AUTHX", "NOISE"}

VARIABLES n,       \* number of keys supplied
          script, pos,
          sent,    \* host messages: <<"CNXN">>, <<"SIGN", key, tokenpos>>, <<"PUBKEY", 1>>
          phase,   \* "init" "wait" "keys" "final" "done"
          ki,      \* index of the key to try next
          cur,     \* the AUTH/CNXN message being handled: <<kind, position>>
          result
vars == <<n, script, pos, sent, phase, ki, cur, result>>

Scripts == UNION {[1..l -> Alphabet] : l \in 0..MaxLen}

Init == /\ n \in 0..MaxKeys /\ script \in Scripts /\ pos = 0 /\ sent = <<>>
        /\ phase = "init" /\ ki = 1 /\ cur = <<"", 0>> /\ result = <<"none">>

Start == /\ phase = "init" /\ sent' = <<<<"CNXN">>>> /\ phase' = "wait"
         /\ UNCHANGED <<n, script, pos, ki, cur, result>>

IsAuth(x) == x \in {"TOKEN", "AUTHX"}
IsCnxn(x) == x \in {"CNXN", "CNXNBAD"}
Wanted(x) == IF phase = "final" THEN IsCnxn(x) ELSE IsAuth(x) \/ IsCnxn(x)

Finish(r) == phase' = "done" /\ result' = r

(* "ignores unrelated packets before CNXN" / silence = timeout *)
ReadNext ==
  /\ phase \in {"wait", "final"}
  /\ IF pos = Len(script)
     THEN /\ Finish(IF phase = "final" THEN <<"DeviceAuthError">> ELSE <<"TIMEOUT">>)
          /\ UNCHANGED <<pos, cur, sent, ki>>
     ELSE LET x == script[pos + 1] IN
          /\ pos' = pos + 1
          /\ IF ~Wanted(x) THEN UNCHANGED <<phase, result, cur, sent, ki>>
             ELSE IF x = "CNXN" THEN Finish(<<"connected", pos + 1>>) /\ UNCHANGED <<cur, sent, ki>>
             ELSE IF x = "CNXNBAD" THEN Finish(<<"AdbProtocolError">>) /\ UNCHANGED <<cur, sent, ki>>
             ELSE \* an AUTH packet
                  /\ cur' = <<x, pos + 1>>
                  /\ IF n = 0 THEN Finish(<<"DeviceAuthError">>) /\ UNCHANGED <<sent, ki>>
                     ELSE phase' = "keys" /\ UNCHANGED <<result, sent, ki>>
  /\ UNCHANGED <<n, script>>

(* "it signs only TOKEN challenges, tries the supplied keys in order, offers the
   first public key once after all signatures were rejected" *)
KeyStep ==
  /\ phase = "keys"
  /\ IF ki > n
     THEN /\ sent' = Append(sent, <<"PUBKEY", 1>>) /\ phase' = "final" /\ UNCHANGED <<result, ki>>
     ELSE IF cur[1] # "TOKEN" THEN Finish(<<"AdbProtocolError">>) /\ UNCHANGED <<sent, ki>>
     ELSE /\ sent' = Append(sent, <<"SIGN", ki, cur[2]>>) /\ ki' = ki + 1
          /\ phase' = "wait" /\ UNCHANGED result
  /\ UNCHANGED <<n, script, pos, cur>>

Next == Start \/ ReadNext \/ KeyStep
Spec == Init /\ [][Next]_vars

----------------------------------------------------------------------
Signs == {i \in 1..Len(sent) : sent[i][1] = "SIGN"}
ConnectedOnlyAfterCnxn == (result[1] = "connected") => script[result[2]] = "CNXN" /\ pos = result[2]
SignsOnlyTokens == \A i \in Signs : script[sent[i][3]] = "TOKEN"
KeysInOrder == \A i \in Signs : sent[i][2] = Cardinality({j \in Signs : j <= i}) /\ sent[i][2] <= n
PubkeyOnceAfterAll == LET ps == {i \in 1..Len(sent) : sent[i][1] = "PUBKEY"} IN
                      /\ Cardinality(ps) <= 1
                      /\ \A i \in ps : Cardinality({j \in Signs : j < i}) = n /\ n > 0
NoConnectionOnError == (phase = "done" /\ result[1] # "connected") =>
                          result[1] \in {"DeviceAuthError", "AdbProtocolError", "TIMEOUT"}

Emit == (phase = "done") => PrintT(<<"HIST", [n |-> n, script |-> script, sent |-> sent, result |-> result]>>)
======================================================================
