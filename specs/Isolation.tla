---------------------------- MODULE Isolation ----------------------------
(* C11: descriptors are never mutated; derived phases are copies.

   The heap is a sequence of descriptor VALUES; an operation takes existing
   objects as operands and creates a new object whose value is a function of
   theirs.  No operation changes the value of an existing object
   (NoMutationOfOperands) - the driver checks exactly that on the real objects by
   re-projecting every object created so far after every operation.

   Phase value: [k |-> "phase", base, name, args, meas, ndiag, plugs, timeout, ph]
   (ph: base 2 declares a placeholder plug - "none" until with_plugs substitutes
   a class for it; "na" for base 1)
   Collection value: [k |-> "seq"|"group", ch |-> sequence of phase values] *)
EXTENDS Naturals, Sequences, FiniteSets, TLC

CONSTANTS MaxOps, MaxObjs

VARIABLES heap,    \* sequence of values
          frozen,  \* value of each object when it was created
          runs,    \* number of executions so far
          hist
vars == <<heap, frozen, runs, hist>>

NewPhase(b) == [k |-> "phase", base |-> b, name |-> "", args |-> {}, meas |-> <<>>, ndiag |-> 0,
                plugs |-> {}, timeout |-> 0, ph |-> IF b = 2 THEN "none" ELSE "na"]
Phases == {i \in 1..Len(heap) : heap[i].k = "phase"}
Colls == {i \in 1..Len(heap) : heap[i].k # "phase"}
MeasNames(v) == {v.meas[i] : i \in 1..Len(v.meas)}

Create(op, v) == /\ Len(hist) < MaxOps /\ Len(heap) < MaxObjs
                 /\ heap' = Append(heap, v) /\ frozen' = Append(frozen, v)
                 /\ hist' = Append(hist, <<op, v>>) /\ UNCHANGED runs

Init == heap = <<>> /\ frozen = <<>> /\ runs = 0 /\ hist = <<>>

Wrap(b) == Create(<<"wrap", b>>, NewPhase(b))
WithArgs(o, a) == o \in Phases /\ Create(<<"with_args", o, a>>, [heap[o] EXCEPT !.args = @ \cup {a}])
Options(o, nm, t) == o \in Phases /\
   Create(<<"options", o, nm, t>>, [heap[o] EXCEPT !.name = IF nm = "" THEN @ ELSE nm,
                                                  !.timeout = IF t = 0 THEN @ ELSE t])
Measures(o, m) == o \in Phases /\ m \notin MeasNames(heap[o]) /\
   Create(<<"measures", o, m>>, [heap[o] EXCEPT !.meas = Append(@, m)])
Diagnose(o) == o \in Phases /\ heap[o].ndiag < 1 /\
   Create(<<"diagnose", o>>, [heap[o] EXCEPT !.ndiag = @ + 1])
Plug(o, p) == o \in Phases /\ p \notin heap[o].plugs /\
   Create(<<"plug", o, p>>, [heap[o] EXCEPT !.plugs = @ \cup {p}])
WithPlugs(o, c) == o \in Phases /\ heap[o].ph = "none" /\
   Create(<<"with_plugs", o, c>>, [heap[o] EXCEPT !.ph = c])
NestSeq(o1, o2) == o1 \in Phases /\ o2 \in Phases /\
   Create(<<"seq", o1, o2>>, [k |-> "seq", ch |-> <<heap[o1], heap[o2]>>])
NestGroup(o1, o2) == o1 \in Phases /\ o2 \in Phases /\
   Create(<<"group", o1, o2>>, [k |-> "group", ch |-> <<heap[o1], heap[o2]>>])
CollWithArgs(c, a) == c \in Colls /\
   Create(<<"coll_with_args", c, a>>,
          [heap[c] EXCEPT !.ch = [i \in 1..Len(heap[c].ch) |-> [heap[c].ch[i] EXCEPT !.args = @ \cup {a}]]])
\* executing a test built from one object creates nothing and changes nothing
Executable(v) == IF v.k = "phase" THEN v.ph # "none"
                 ELSE \A i \in 1..Len(v.ch) : v.ch[i].ph # "none"
Execute(o) == /\ Len(hist) < MaxOps /\ o \in 1..Len(heap) /\ Executable(heap[o])
              /\ runs' = runs + 1 /\ hist' = Append(hist, <<<<"execute", o>>, heap[o]>>)
              /\ UNCHANGED <<heap, frozen>>

Next == \/ \E b \in {1, 2} : Wrap(b)
        \/ \E o \in 1..Len(heap) :
             \/ \E a \in {"x", "y"} : WithArgs(o, a) \/ CollWithArgs(o, a)
             \/ \E nm \in {"", "renamed"}, t \in {0, 5} : (nm # "" \/ t # 0) /\ Options(o, nm, t)
             \/ \E m \in {"m1", "m2"} : Measures(o, m)
             \/ Diagnose(o)
             \/ \E p \in {"pa", "pb"} : Plug(o, p)
             \/ \E c \in {"pha", "phb"} : WithPlugs(o, c)
             \/ Execute(o)
             \/ \E o2 \in 1..Len(heap) : NestSeq(o, o2) \/ NestGroup(o, o2)
Spec == Init /\ [][Next]_vars

(* "Executing a test never mutates the phases ... it was declared with";
   "modifying or running one never changes the phase or collection it was derived from" *)
NoMutationOfOperands == heap = frozen
ValuesOnlyAppended == [][Len(heap') >= Len(heap) /\ SubSeq(heap', 1, Len(heap)) = heap]_vars
Emit == (Len(hist) = MaxOps) => PrintT(<<"HIST", hist>>)
======================================================================
