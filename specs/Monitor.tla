---------------------------- MODULE Monitor ----------------------------
(* EXTENSION beyond the listed properties: openhtf.core.monitors - a phase
   decorated with @monitors(name, func, poll_interval_ms=I) runs `func`
   periodically in a _MonitorThread (a KillableThread) while the phase body
   runs and records every value in a dimensioned measurement keyed by the
   time of the sample:

       monitor_thread.start()
       try:     return phase(...)
       finally: monitor_thread.kill(); monitor_thread.join()

   Time is discrete (one unit = 1 ms in the trace specification, an abstract
   tick in the design configuration).  As everywhere in this framework time
   passes only when no thread can run, so a due sample is taken before the
   clock advances (Tick is disabled while a sample is due).

   What a user relies on:
     RowsAreCalls       every recorded row is the value of exactly one call of
                        the monitor function, in call order; only the value of
                        the call in progress when the phase ends may be lost
     KeysIncrease       sample times strictly increase
     NeverEarly         a sample is never taken before its slot begins
     NoLateSample       once the phase function has joined the monitor thread
                        the measurement no longer changes
     JoinedMeansDead    the monitor thread never outlives its phase
     PhaseReturns       the phase function eventually returns (liveness) *)
EXTENDS Integers, Sequences, TLC

CONSTANTS I,        \* poll interval
          MaxT      \* bound on the clock (design configuration)

VARIABLES now,      \* clock
          mstate,   \* "none" (not started) | "running" | "dead"
          mstart,   \* start_time of the monitor thread
          calls,    \* number of calls of the monitor function so far
          pend,     \* value returned by a call whose row is not stored yet (0 = none)
          stored,   \* rows of the measurement: sequence of <<key, value>>
          last,     \* last_sample: slot index of the latest stored sample
          bodyDone, \* the phase body returned or raised
          killReq,  \* kill() was called
          joined    \* join() returned: the phase function is about to return

vars == <<now, mstate, mstart, calls, pend, stored, last, bodyDone, killReq, joined>>

Init == /\ now = 0 /\ mstate = "none" /\ mstart = 0 /\ calls = 0 /\ pend = 0
        /\ stored = <<>> /\ last = 0 /\ bodyDone = FALSE /\ killReq = FALSE /\ joined = FALSE

NextDue == IF calls = 0 THEN mstart ELSE mstart + (last + 1) * I
\* kill() is a request: until the ThreadTerminationError lands (Die) the monitor thread goes on, so a sample
\* that is due at this very instant may still be taken after kill() was called
Sampling == mstate = "running" /\ pend = 0
CanAdvanceTo(t) == ~Sampling \/ t <= NextDue

Start == /\ mstate = "none" /\ ~killReq
         /\ mstate' = "running" /\ mstart' = now
         /\ UNCHANGED <<now, calls, pend, stored, last, bodyDone, killReq, joined>>

(* _take_sample: value = get_value() *)
Call == /\ Sampling /\ now >= NextDue
        /\ calls' = calls + 1 /\ pend' = calls + 1
        /\ UNCHANGED <<now, mstate, mstart, stored, last, bodyDone, killReq, joined>>

(* measurement[(post_time - start_time) * 1000] = value *)
Store == /\ mstate = "running" /\ pend # 0
         /\ stored' = Append(stored, <<now - mstart, pend>>)
         /\ last' = (now - mstart) \div I
         /\ pend' = 0
         /\ UNCHANGED <<now, mstate, mstart, calls, bodyDone, killReq, joined>>

BodyEnd == /\ ~bodyDone /\ mstate # "none"
           /\ bodyDone' = TRUE
           /\ UNCHANGED <<now, mstate, mstart, calls, pend, stored, last, killReq, joined>>

Kill == /\ bodyDone /\ ~killReq
        /\ killReq' = TRUE
        /\ UNCHANGED <<now, mstate, mstart, calls, pend, stored, last, bodyDone, joined>>

(* ThreadTerminationError lands in the monitor thread: the value of a call in
   progress is dropped *)
Die == /\ killReq /\ mstate = "running"
       /\ mstate' = "dead" /\ pend' = 0
       /\ UNCHANGED <<now, mstart, calls, stored, last, bodyDone, killReq, joined>>

Join == /\ killReq /\ mstate = "dead" /\ ~joined
        /\ joined' = TRUE
        /\ UNCHANGED <<now, mstate, mstart, calls, pend, stored, last, bodyDone, killReq>>

Tick == /\ now < MaxT /\ ~joined /\ CanAdvanceTo(now + 1)
        /\ ~(killReq /\ mstate = "running")     \* the kill lands before the clock moves (the killer can run)
        /\ now' = now + 1
        /\ UNCHANGED <<mstate, mstart, calls, pend, stored, last, bodyDone, killReq, joined>>

Next == Start \/ Call \/ Store \/ BodyEnd \/ Kill \/ Die \/ Join \/ Tick

Spec == Init /\ [][Next]_vars /\ WF_vars(Start) /\ WF_vars(BodyEnd) /\ WF_vars(Kill) /\ WF_vars(Die) /\ WF_vars(Join)

----------------------------------------------------------------------
RowsAreCalls == /\ \A i \in 1..Len(stored) : stored[i][2] = i
                /\ Len(stored) \in {calls, calls - 1}
                /\ (Len(stored) = calls - 1) => (pend = calls \/ mstate = "dead")
KeysIncrease == \A i \in 1..(Len(stored) - 1) : stored[i][1] < stored[i + 1][1]
NeverEarly == \A i \in 2..Len(stored) : stored[i][1] >= ((stored[i - 1][1] \div I) + 1) * I
JoinedMeansDead == joined => (mstate = "dead" /\ pend = 0)
NoLateSample == [][joined => stored' = stored]_vars
(* with an instantaneous monitor function a sample is taken in every slot the
   thread lived through: the k-th row has key (k-1)*I *)
OnTime == \A i \in 1..Len(stored) : stored[i][1] = (i - 1) * I
PhaseReturns == <>joined
======================================================================
