---------------------------- MODULE AbortHandshake ----------------------------
(* C04: operator abort versus the executor and the phase threads, at the
   granularity of the locks and flags involved
   (TestExecutor.{abort,_stop_phase_executor,_execute_abortable_sequence,
   _execute_teardown_sequence}, PhaseExecutor.{execute_phase,
   _execute_phase_once,stop,reset_stop}).

   One group: NSetup setup phases and NMain main phases (all abortable: phases
   1..NSetup+NMain) then NTd teardown phases.  The group is ENTERED - main and
   teardown run - iff the setup sequence ended without a terminal result (no
   setup phase was killed and the abortable-sequence loop did not see the abort
   flag before starting a setup phase); an abort that arrives after the last
   setup phase finished leaves the group entered, so its teardown still runs
   (C03).  PostLoopAbortCheck = TRUE is the variant that looks at the abort flag
   once more after the setup sequence: TLC then finds an entered group whose
   teardown never runs.

   Executor, per abortable phase:   ea  test _abort (abortable sequence)
                                    ep  test _stopping (execute_phase loop)
                                    el  take _current_phase_thread_lock
                                    es  test _stopping under the lock; start + publish thread; release
                                    ej  join
                                    ec  clear current thread
   teardown sequence:               tl  take the teardown lock [reset _stopping: repaired protocol]
                                    tf  test _full_abort, then as above for each teardown phase
   Aborter:  a1 test-and-set _abort / _full_abort
             a2 take the teardown lock without blocking (skip the stop if teardown is running; a forced stop does not ask)
             a3 set _stopping
             a4 read the current thread under the lock
             a5 kill it, a6 wait for it (bounded)
             a7 reset _stopping            [ResetInAbort = TRUE: the protocol as originally pinned]
             a8 release the teardown lock, return

   ResetInAbort = TRUE re-opens the gate before the executor has looked at it:
   TLC finds a main phase body starting after abort() returned. *)
EXTENDS Naturals, Sequences, FiniteSets, TLC

CONSTANTS NSetup, NMain, NTd, NAborters, ResetInAbort, PostLoopAbortCheck

NAb == NSetup + NMain
Phases == 1..(NAb + NTd)
ExecId == 0
A1 == 101
A2 == 102
Free == 999
IsTd(p) == p > NAb
IsSetup(p) == p <= NSetup

(* --algorithm AbortHandshake
variables abortF = FALSE, fullAbort = FALSE, stopping = FALSE,
          tdLock = Free, ptLock = Free, cur = 0,
          running = {}, asked = {},
          startedSeq = <<>>,
          abortsReturned = 0,
          lateStart = FALSE,          \* a non-teardown body started after an abort call had returned
          finalized = FALSE, afterFinal = FALSE, outcome = "none",
          retBeforeFin = FALSE,       \* an abort call returned before the record was finalized
          okDone = {},                \* phases whose body completed without having been asked to terminate
          entered = FALSE;            \* the executor decided that setup completed

define
  AtMostOneBody == Cardinality(running) <= 1
  NoStartAfterAbortReturned == ~lateStart
  NoBodyAfterFinalize == ~afterFinal
  AbortedWins == (finalized /\ retBeforeFin) => outcome = "ABORTED"
  NotAbortedWithoutAbort == (finalized /\ ~abortF) => outcome # "ABORTED"
  TdStarted == {startedSeq[i] : i \in {j \in 1..Len(startedSeq) : IsTd(startedSeq[j])}}
  \* a single abort never prevents a teardown phase of the entered group from running (C03)
  TeardownAllRun == (finalized /\ ~fullAbort /\ entered) => TdStarted = {p \in Phases : IsTd(p)}
  \* "If all setup nodes complete without a terminal result ... every teardown node is executed", whenever a single abort arrives
  EnteredMeansTeardown == (finalized /\ ~fullAbort /\ {p \in Phases : IsSetup(p)} \subseteq okDone)
                             => TdStarted = {p \in Phases : IsTd(p)}
  \* "If setup does not complete, neither main nor teardown of that group runs"
  SetupFailedNothingRuns == (finalized /\ ~entered) =>
                               \A k \in 1..Len(startedSeq) : IsSetup(startedSeq[k])
  NoDoubleStart == \A i, j \in 1..Len(startedSeq) : startedSeq[i] = startedSeq[j] => i = j
end define;

macro StartBody(p) begin
  cur := p; running := running \cup {p}; startedSeq := Append(startedSeq, p);
  if ~IsTd(p) /\ abortsReturned > 0 then lateStart := TRUE; end if;
  if finalized then afterFinal := TRUE; end if;
end macro;

fair process Exec = ExecId
variables i = 1, term = FALSE;
begin
ea:   while i <= NAb /\ ~term do
        if abortF then
          term := TRUE;
        else
ep:       if stopping then
            term := TRUE;
          else
el:         await ptLock = Free; ptLock := ExecId;
es:         if stopping then
              ptLock := Free; term := TRUE;
            else
              StartBody(i); ptLock := Free;
ej:           await i \notin running;
ec:           cur := 0;
              if i \in asked then term := TRUE;
              else
                okDone := okDone \cup {i};
                \* i = NSetup: the setup sequence just ended without a terminal result
                if i = NSetup /\ PostLoopAbortCheck /\ abortF then term := TRUE; else i := i + 1; end if;
              end if;
            end if;
          end if;
        end if;
      end while;
ed:   entered := (i > NSetup);          \* setup returned CONTINUE (main may have been cut short)
      if ~entered then goto fin; end if;
tl:   await tdLock = Free; tdLock := ExecId;
      if ~ResetInAbort then stopping := FALSE; end if;
      i := NAb + 1;
tf:   while i <= NAb + NTd do
        if fullAbort then
          i := NAb + NTd + 1;
        else
tp:       if stopping then
            i := i + 1;
          else
tk:         await ptLock = Free; ptLock := ExecId;
ts:         if stopping then
              ptLock := Free; i := i + 1;
            else
              StartBody(i); ptLock := Free;
tj:           await i \notin running;
tc:           cur := 0; i := i + 1;
            end if;
          end if;
        end if;
      end while;
tu:   tdLock := Free;
fin:  finalized := TRUE; outcome := IF abortF THEN "ABORTED" ELSE "OTHER";
end process;

fair process Body \in Phases
begin
b0:   await self \in running;
b1:   running := running \ {self};      \* the body returns, or honours the kill
end process;

fair process Aborter \in {A1, A2}
variables force = FALSE, t = 0, gotTd = FALSE;
begin
a0:   await self = A1 \/ NAborters = 2;
a1:   if abortF then fullAbort := TRUE; force := TRUE; else abortF := TRUE; end if;
a2:   if ~force then
        if tdLock = Free then tdLock := self; gotTd := TRUE; else goto aret; end if;
      end if;
a3:   stopping := TRUE;
a4:   await ptLock = Free; t := cur;
      if t = 0 then goto a7; end if;
a5:   if t \in running then asked := asked \cup {t}; end if;
a6:   await t \notin running;
a7:   if ResetInAbort then stopping := FALSE; end if;
a8:   if gotTd then tdLock := Free; end if;
aret: abortsReturned := abortsReturned + 1;
      if ~finalized then retBeforeFin := TRUE; end if;
end process;
end algorithm; *)
\* BEGIN TRANSLATION
VARIABLES pc, abortF, fullAbort, stopping, tdLock, ptLock, cur, running, 
          asked, startedSeq, abortsReturned, lateStart, finalized, afterFinal, 
          outcome, retBeforeFin, okDone, entered

(* define statement *)
AtMostOneBody == Cardinality(running) <= 1
NoStartAfterAbortReturned == ~lateStart
NoBodyAfterFinalize == ~afterFinal
AbortedWins == (finalized /\ retBeforeFin) => outcome = "ABORTED"
NotAbortedWithoutAbort == (finalized /\ ~abortF) => outcome # "ABORTED"
TdStarted == {startedSeq[i] : i \in {j \in 1..Len(startedSeq) : IsTd(startedSeq[j])}}

TeardownAllRun == (finalized /\ ~fullAbort /\ entered) => TdStarted = {p \in Phases : IsTd(p)}

EnteredMeansTeardown == (finalized /\ ~fullAbort /\ {p \in Phases : IsSetup(p)} \subseteq okDone)
                           => TdStarted = {p \in Phases : IsTd(p)}

SetupFailedNothingRuns == (finalized /\ ~entered) =>
                             \A k \in 1..Len(startedSeq) : IsSetup(startedSeq[k])
NoDoubleStart == \A i, j \in 1..Len(startedSeq) : startedSeq[i] = startedSeq[j] => i = j

VARIABLES i, term, force, t, gotTd

vars == << pc, abortF, fullAbort, stopping, tdLock, ptLock, cur, running, 
           asked, startedSeq, abortsReturned, lateStart, finalized, 
           afterFinal, outcome, retBeforeFin, okDone, entered, i, term, force, 
           t, gotTd >>

ProcSet == {ExecId} \cup (Phases) \cup ({A1, A2})

Init == (* Global variables *)
        /\ abortF = FALSE
        /\ fullAbort = FALSE
        /\ stopping = FALSE
        /\ tdLock = Free
        /\ ptLock = Free
        /\ cur = 0
        /\ running = {}
        /\ asked = {}
        /\ startedSeq = <<>>
        /\ abortsReturned = 0
        /\ lateStart = FALSE
        /\ finalized = FALSE
        /\ afterFinal = FALSE
        /\ outcome = "none"
        /\ retBeforeFin = FALSE
        /\ okDone = {}
        /\ entered = FALSE
        (* Process Exec *)
        /\ i = 1
        /\ term = FALSE
        (* Process Aborter *)
        /\ force = [self \in {A1, A2} |-> FALSE]
        /\ t = [self \in {A1, A2} |-> 0]
        /\ gotTd = [self \in {A1, A2} |-> FALSE]
        /\ pc = [self \in ProcSet |-> CASE self = ExecId -> "ea"
                                        [] self \in Phases -> "b0"
                                        [] self \in {A1, A2} -> "a0"]

ea == /\ pc[ExecId] = "ea"
      /\ IF i <= NAb /\ ~term
            THEN /\ IF abortF
                       THEN /\ term' = TRUE
                            /\ pc' = [pc EXCEPT ![ExecId] = "ea"]
                       ELSE /\ pc' = [pc EXCEPT ![ExecId] = "ep"]
                            /\ term' = term
            ELSE /\ pc' = [pc EXCEPT ![ExecId] = "ed"]
                 /\ term' = term
      /\ UNCHANGED << abortF, fullAbort, stopping, tdLock, ptLock, cur, 
                      running, asked, startedSeq, abortsReturned, lateStart, 
                      finalized, afterFinal, outcome, retBeforeFin, okDone, 
                      entered, i, force, t, gotTd >>

ep == /\ pc[ExecId] = "ep"
      /\ IF stopping
            THEN /\ term' = TRUE
                 /\ pc' = [pc EXCEPT ![ExecId] = "ea"]
            ELSE /\ pc' = [pc EXCEPT ![ExecId] = "el"]
                 /\ term' = term
      /\ UNCHANGED << abortF, fullAbort, stopping, tdLock, ptLock, cur, 
                      running, asked, startedSeq, abortsReturned, lateStart, 
                      finalized, afterFinal, outcome, retBeforeFin, okDone, 
                      entered, i, force, t, gotTd >>

el == /\ pc[ExecId] = "el"
      /\ ptLock = Free
      /\ ptLock' = ExecId
      /\ pc' = [pc EXCEPT ![ExecId] = "es"]
      /\ UNCHANGED << abortF, fullAbort, stopping, tdLock, cur, running, asked, 
                      startedSeq, abortsReturned, lateStart, finalized, 
                      afterFinal, outcome, retBeforeFin, okDone, entered, i, 
                      term, force, t, gotTd >>

es == /\ pc[ExecId] = "es"
      /\ IF stopping
            THEN /\ ptLock' = Free
                 /\ term' = TRUE
                 /\ pc' = [pc EXCEPT ![ExecId] = "ea"]
                 /\ UNCHANGED << cur, running, startedSeq, lateStart, 
                                 afterFinal >>
            ELSE /\ cur' = i
                 /\ running' = (running \cup {i})
                 /\ startedSeq' = Append(startedSeq, i)
                 /\ IF ~IsTd(i) /\ abortsReturned > 0
                       THEN /\ lateStart' = TRUE
                       ELSE /\ TRUE
                            /\ UNCHANGED lateStart
                 /\ IF finalized
                       THEN /\ afterFinal' = TRUE
                       ELSE /\ TRUE
                            /\ UNCHANGED afterFinal
                 /\ ptLock' = Free
                 /\ pc' = [pc EXCEPT ![ExecId] = "ej"]
                 /\ term' = term
      /\ UNCHANGED << abortF, fullAbort, stopping, tdLock, asked, 
                      abortsReturned, finalized, outcome, retBeforeFin, okDone, 
                      entered, i, force, t, gotTd >>

ej == /\ pc[ExecId] = "ej"
      /\ i \notin running
      /\ pc' = [pc EXCEPT ![ExecId] = "ec"]
      /\ UNCHANGED << abortF, fullAbort, stopping, tdLock, ptLock, cur, 
                      running, asked, startedSeq, abortsReturned, lateStart, 
                      finalized, afterFinal, outcome, retBeforeFin, okDone, 
                      entered, i, term, force, t, gotTd >>

ec == /\ pc[ExecId] = "ec"
      /\ cur' = 0
      /\ IF i \in asked
            THEN /\ term' = TRUE
                 /\ UNCHANGED << okDone, i >>
            ELSE /\ okDone' = (okDone \cup {i})
                 /\ IF i = NSetup /\ PostLoopAbortCheck /\ abortF
                       THEN /\ term' = TRUE
                            /\ i' = i
                       ELSE /\ i' = i + 1
                            /\ term' = term
      /\ pc' = [pc EXCEPT ![ExecId] = "ea"]
      /\ UNCHANGED << abortF, fullAbort, stopping, tdLock, ptLock, running, 
                      asked, startedSeq, abortsReturned, lateStart, finalized, 
                      afterFinal, outcome, retBeforeFin, entered, force, t, 
                      gotTd >>

ed == /\ pc[ExecId] = "ed"
      /\ entered' = (i > NSetup)
      /\ IF ~entered'
            THEN /\ pc' = [pc EXCEPT ![ExecId] = "fin"]
            ELSE /\ pc' = [pc EXCEPT ![ExecId] = "tl"]
      /\ UNCHANGED << abortF, fullAbort, stopping, tdLock, ptLock, cur, 
                      running, asked, startedSeq, abortsReturned, lateStart, 
                      finalized, afterFinal, outcome, retBeforeFin, okDone, i, 
                      term, force, t, gotTd >>

tl == /\ pc[ExecId] = "tl"
      /\ tdLock = Free
      /\ tdLock' = ExecId
      /\ IF ~ResetInAbort
            THEN /\ stopping' = FALSE
            ELSE /\ TRUE
                 /\ UNCHANGED stopping
      /\ i' = NAb + 1
      /\ pc' = [pc EXCEPT ![ExecId] = "tf"]
      /\ UNCHANGED << abortF, fullAbort, ptLock, cur, running, asked, 
                      startedSeq, abortsReturned, lateStart, finalized, 
                      afterFinal, outcome, retBeforeFin, okDone, entered, term, 
                      force, t, gotTd >>

tf == /\ pc[ExecId] = "tf"
      /\ IF i <= NAb + NTd
            THEN /\ IF fullAbort
                       THEN /\ i' = NAb + NTd + 1
                            /\ pc' = [pc EXCEPT ![ExecId] = "tf"]
                       ELSE /\ pc' = [pc EXCEPT ![ExecId] = "tp"]
                            /\ i' = i
            ELSE /\ pc' = [pc EXCEPT ![ExecId] = "tu"]
                 /\ i' = i
      /\ UNCHANGED << abortF, fullAbort, stopping, tdLock, ptLock, cur, 
                      running, asked, startedSeq, abortsReturned, lateStart, 
                      finalized, afterFinal, outcome, retBeforeFin, okDone, 
                      entered, term, force, t, gotTd >>

tp == /\ pc[ExecId] = "tp"
      /\ IF stopping
            THEN /\ i' = i + 1
                 /\ pc' = [pc EXCEPT ![ExecId] = "tf"]
            ELSE /\ pc' = [pc EXCEPT ![ExecId] = "tk"]
                 /\ i' = i
      /\ UNCHANGED << abortF, fullAbort, stopping, tdLock, ptLock, cur, 
                      running, asked, startedSeq, abortsReturned, lateStart, 
                      finalized, afterFinal, outcome, retBeforeFin, okDone, 
                      entered, term, force, t, gotTd >>

tk == /\ pc[ExecId] = "tk"
      /\ ptLock = Free
      /\ ptLock' = ExecId
      /\ pc' = [pc EXCEPT ![ExecId] = "ts"]
      /\ UNCHANGED << abortF, fullAbort, stopping, tdLock, cur, running, asked, 
                      startedSeq, abortsReturned, lateStart, finalized, 
                      afterFinal, outcome, retBeforeFin, okDone, entered, i, 
                      term, force, t, gotTd >>

ts == /\ pc[ExecId] = "ts"
      /\ IF stopping
            THEN /\ ptLock' = Free
                 /\ i' = i + 1
                 /\ pc' = [pc EXCEPT ![ExecId] = "tf"]
                 /\ UNCHANGED << cur, running, startedSeq, lateStart, 
                                 afterFinal >>
            ELSE /\ cur' = i
                 /\ running' = (running \cup {i})
                 /\ startedSeq' = Append(startedSeq, i)
                 /\ IF ~IsTd(i) /\ abortsReturned > 0
                       THEN /\ lateStart' = TRUE
                       ELSE /\ TRUE
                            /\ UNCHANGED lateStart
                 /\ IF finalized
                       THEN /\ afterFinal' = TRUE
                       ELSE /\ TRUE
                            /\ UNCHANGED afterFinal
                 /\ ptLock' = Free
                 /\ pc' = [pc EXCEPT ![ExecId] = "tj"]
                 /\ i' = i
      /\ UNCHANGED << abortF, fullAbort, stopping, tdLock, asked, 
                      abortsReturned, finalized, outcome, retBeforeFin, okDone, 
                      entered, term, force, t, gotTd >>

tj == /\ pc[ExecId] = "tj"
      /\ i \notin running
      /\ pc' = [pc EXCEPT ![ExecId] = "tc"]
      /\ UNCHANGED << abortF, fullAbort, stopping, tdLock, ptLock, cur, 
                      running, asked, startedSeq, abortsReturned, lateStart, 
                      finalized, afterFinal, outcome, retBeforeFin, okDone, 
                      entered, i, term, force, t, gotTd >>

tc == /\ pc[ExecId] = "tc"
      /\ cur' = 0
      /\ i' = i + 1
      /\ pc' = [pc EXCEPT ![ExecId] = "tf"]
      /\ UNCHANGED << abortF, fullAbort, stopping, tdLock, ptLock, running, 
                      asked, startedSeq, abortsReturned, lateStart, finalized, 
                      afterFinal, outcome, retBeforeFin, okDone, entered, term, 
                      force, t, gotTd >>

tu == /\ pc[ExecId] = "tu"
      /\ tdLock' = Free
      /\ pc' = [pc EXCEPT ![ExecId] = "fin"]
      /\ UNCHANGED << abortF, fullAbort, stopping, ptLock, cur, running, asked, 
                      startedSeq, abortsReturned, lateStart, finalized, 
                      afterFinal, outcome, retBeforeFin, okDone, entered, i, 
                      term, force, t, gotTd >>

fin == /\ pc[ExecId] = "fin"
       /\ finalized' = TRUE
       /\ outcome' = IF abortF THEN "ABORTED" ELSE "OTHER"
       /\ pc' = [pc EXCEPT ![ExecId] = "Done"]
       /\ UNCHANGED << abortF, fullAbort, stopping, tdLock, ptLock, cur, 
                       running, asked, startedSeq, abortsReturned, lateStart, 
                       afterFinal, retBeforeFin, okDone, entered, i, term, 
                       force, t, gotTd >>

Exec == ea \/ ep \/ el \/ es \/ ej \/ ec \/ ed \/ tl \/ tf \/ tp \/ tk
           \/ ts \/ tj \/ tc \/ tu \/ fin

b0(self) == /\ pc[self] = "b0"
            /\ self \in running
            /\ pc' = [pc EXCEPT ![self] = "b1"]
            /\ UNCHANGED << abortF, fullAbort, stopping, tdLock, ptLock, cur, 
                            running, asked, startedSeq, abortsReturned, 
                            lateStart, finalized, afterFinal, outcome, 
                            retBeforeFin, okDone, entered, i, term, force, t, 
                            gotTd >>

b1(self) == /\ pc[self] = "b1"
            /\ running' = running \ {self}
            /\ pc' = [pc EXCEPT ![self] = "Done"]
            /\ UNCHANGED << abortF, fullAbort, stopping, tdLock, ptLock, cur, 
                            asked, startedSeq, abortsReturned, lateStart, 
                            finalized, afterFinal, outcome, retBeforeFin, 
                            okDone, entered, i, term, force, t, gotTd >>

Body(self) == b0(self) \/ b1(self)

a0(self) == /\ pc[self] = "a0"
            /\ self = A1 \/ NAborters = 2
            /\ pc' = [pc EXCEPT ![self] = "a1"]
            /\ UNCHANGED << abortF, fullAbort, stopping, tdLock, ptLock, cur, 
                            running, asked, startedSeq, abortsReturned, 
                            lateStart, finalized, afterFinal, outcome, 
                            retBeforeFin, okDone, entered, i, term, force, t, 
                            gotTd >>

a1(self) == /\ pc[self] = "a1"
            /\ IF abortF
                  THEN /\ fullAbort' = TRUE
                       /\ force' = [force EXCEPT ![self] = TRUE]
                       /\ UNCHANGED abortF
                  ELSE /\ abortF' = TRUE
                       /\ UNCHANGED << fullAbort, force >>
            /\ pc' = [pc EXCEPT ![self] = "a2"]
            /\ UNCHANGED << stopping, tdLock, ptLock, cur, running, asked, 
                            startedSeq, abortsReturned, lateStart, finalized, 
                            afterFinal, outcome, retBeforeFin, okDone, entered, 
                            i, term, t, gotTd >>

a2(self) == /\ pc[self] = "a2"
            /\ IF ~force[self]
                  THEN /\ IF tdLock = Free
                             THEN /\ tdLock' = self
                                  /\ gotTd' = [gotTd EXCEPT ![self] = TRUE]
                                  /\ pc' = [pc EXCEPT ![self] = "a3"]
                             ELSE /\ pc' = [pc EXCEPT ![self] = "aret"]
                                  /\ UNCHANGED << tdLock, gotTd >>
                  ELSE /\ pc' = [pc EXCEPT ![self] = "a3"]
                       /\ UNCHANGED << tdLock, gotTd >>
            /\ UNCHANGED << abortF, fullAbort, stopping, ptLock, cur, running, 
                            asked, startedSeq, abortsReturned, lateStart, 
                            finalized, afterFinal, outcome, retBeforeFin, 
                            okDone, entered, i, term, force, t >>

a3(self) == /\ pc[self] = "a3"
            /\ stopping' = TRUE
            /\ pc' = [pc EXCEPT ![self] = "a4"]
            /\ UNCHANGED << abortF, fullAbort, tdLock, ptLock, cur, running, 
                            asked, startedSeq, abortsReturned, lateStart, 
                            finalized, afterFinal, outcome, retBeforeFin, 
                            okDone, entered, i, term, force, t, gotTd >>

a4(self) == /\ pc[self] = "a4"
            /\ ptLock = Free
            /\ t' = [t EXCEPT ![self] = cur]
            /\ IF t'[self] = 0
                  THEN /\ pc' = [pc EXCEPT ![self] = "a7"]
                  ELSE /\ pc' = [pc EXCEPT ![self] = "a5"]
            /\ UNCHANGED << abortF, fullAbort, stopping, tdLock, ptLock, cur, 
                            running, asked, startedSeq, abortsReturned, 
                            lateStart, finalized, afterFinal, outcome, 
                            retBeforeFin, okDone, entered, i, term, force, 
                            gotTd >>

a5(self) == /\ pc[self] = "a5"
            /\ IF t[self] \in running
                  THEN /\ asked' = (asked \cup {t[self]})
                  ELSE /\ TRUE
                       /\ asked' = asked
            /\ pc' = [pc EXCEPT ![self] = "a6"]
            /\ UNCHANGED << abortF, fullAbort, stopping, tdLock, ptLock, cur, 
                            running, startedSeq, abortsReturned, lateStart, 
                            finalized, afterFinal, outcome, retBeforeFin, 
                            okDone, entered, i, term, force, t, gotTd >>

a6(self) == /\ pc[self] = "a6"
            /\ t[self] \notin running
            /\ pc' = [pc EXCEPT ![self] = "a7"]
            /\ UNCHANGED << abortF, fullAbort, stopping, tdLock, ptLock, cur, 
                            running, asked, startedSeq, abortsReturned, 
                            lateStart, finalized, afterFinal, outcome, 
                            retBeforeFin, okDone, entered, i, term, force, t, 
                            gotTd >>

a7(self) == /\ pc[self] = "a7"
            /\ IF ResetInAbort
                  THEN /\ stopping' = FALSE
                  ELSE /\ TRUE
                       /\ UNCHANGED stopping
            /\ pc' = [pc EXCEPT ![self] = "a8"]
            /\ UNCHANGED << abortF, fullAbort, tdLock, ptLock, cur, running, 
                            asked, startedSeq, abortsReturned, lateStart, 
                            finalized, afterFinal, outcome, retBeforeFin, 
                            okDone, entered, i, term, force, t, gotTd >>

a8(self) == /\ pc[self] = "a8"
            /\ IF gotTd[self]
                  THEN /\ tdLock' = Free
                  ELSE /\ TRUE
                       /\ UNCHANGED tdLock
            /\ pc' = [pc EXCEPT ![self] = "aret"]
            /\ UNCHANGED << abortF, fullAbort, stopping, ptLock, cur, running, 
                            asked, startedSeq, abortsReturned, lateStart, 
                            finalized, afterFinal, outcome, retBeforeFin, 
                            okDone, entered, i, term, force, t, gotTd >>

aret(self) == /\ pc[self] = "aret"
              /\ abortsReturned' = abortsReturned + 1
              /\ IF ~finalized
                    THEN /\ retBeforeFin' = TRUE
                    ELSE /\ TRUE
                         /\ UNCHANGED retBeforeFin
              /\ pc' = [pc EXCEPT ![self] = "Done"]
              /\ UNCHANGED << abortF, fullAbort, stopping, tdLock, ptLock, cur, 
                              running, asked, startedSeq, lateStart, finalized, 
                              afterFinal, outcome, okDone, entered, i, term, 
                              force, t, gotTd >>

Aborter(self) == a0(self) \/ a1(self) \/ a2(self) \/ a3(self) \/ a4(self)
                    \/ a5(self) \/ a6(self) \/ a7(self) \/ a8(self)
                    \/ aret(self)

(* Allow infinite stuttering to prevent deadlock on termination. *)
Terminating == /\ \A self \in ProcSet: pc[self] = "Done"
               /\ UNCHANGED vars

Next == Exec
           \/ (\E self \in Phases: Body(self))
           \/ (\E self \in {A1, A2}: Aborter(self))
           \/ Terminating

Spec == /\ Init /\ [][Next]_vars
        /\ WF_vars(Exec)
        /\ \A self \in Phases : WF_vars(Body(self))
        /\ \A self \in {A1, A2} : WF_vars(Aborter(self))

Termination == <>(\A self \in ProcSet: pc[self] = "Done")

\* END TRANSLATION 

(* "execute() still returns"; "under no interleaving does the executor deadlock" *)
ExecReturns == <>(pc[ExecId] = "Done")
AbortsReturn == <>(pc[A1] = "Done" /\ (NAborters = 2 => pc[A2] = "Done"))
====
