CONSTANTS
  Watchers = {w1, w2}
  Updaters = {u1, u2}
  Changes = 2
  SnapFirst = TRUE
SPECIFICATION Spec
INVARIANT NoLostUpdate
INVARIANT FinalObserved
PROPERTY StaysSet
PROPERTY WakesAll
PROPERTY Termination
