---------------------------- MODULE GroupAlgebra ----------------------------
(* EXTENSION beyond the listed properties: the composition operations of
   openhtf.core.phase_group.PhaseGroup that station code builds its test
   structure with:

     PhaseGroup(setup=, main=, teardown=)            New
     PhaseGroup.with_context(setup, teardown)(main..)  Context
     g.combine(h)                                      Combine
     g.wrap(main)                                      Wrap

   A group is a triple of sequences of phase names; an absent part (None in the
   code) is the empty sequence.  The specification builds groups step by step
   (a history of at most MaxOps operations over earlier results) and states
   what each operation returns; the driver replays every history on the real
   classes, compares the three name lists after every operation, checks that
   no operand was modified, and executes the groups it built to compare the
   order of the bodies with Flat(g).

   What a user relies on:
     CombineAssociative   (a + b) + c = a + (b + c) for all groups built
     CombineOrder         parts are concatenated part by part, the receiver's
                          nodes first - also for teardown (no reversal)
     WrapIsCombine        g.wrap(m) = g.combine(PhaseGroup(main=m))
     ContextIsNew         with_context(s, t)(m) = PhaseGroup(s, m, t)
     OperandsUntouched    an operation never changes a group built before *)
EXTENDS Integers, Sequences, TLC

CONSTANTS Pool,      \* sequences of phase names an operation may be given
          MaxOps

VARIABLES groups,    \* results so far: sequence of [s, m, t]
          hist       \* <<op, arguments, result>>
vars == <<groups, hist>>

MCPool == {<<>>, <<"a">>, <<"b">>}
MCPoolBig == {<<>>, <<"a">>, <<"b">>, <<"a", "b">>}

G(s, m, t) == [s |-> s, m |-> m, t |-> t]
Comb(g, h) == G(g.s \o h.s, g.m \o h.m, g.t \o h.t)
WrapOf(g, m) == Comb(g, G(<<>>, m, <<>>))
Flat(g) == g.s \o g.m \o g.t

Init == groups = <<>> /\ hist = <<>>

Add(op, args, g) == /\ groups' = Append(groups, g)
                    /\ hist' = Append(hist, <<op, args, g>>)

New == \E s \in Pool, m \in Pool, t \in Pool : Add("New", <<s, m, t>>, G(s, m, t))
Context == \E s \in Pool, m \in Pool, t \in Pool : Add("Context", <<s, m, t>>, G(s, m, t))
Combine == \E i \in 1..Len(groups), j \in 1..Len(groups) : Add("Combine", <<i, j>>, Comb(groups[i], groups[j]))
Wrap == \E i \in 1..Len(groups), m \in Pool : Add("Wrap", <<i, m>>, WrapOf(groups[i], m))

Next == /\ Len(hist) < MaxOps
        /\ (New \/ Context \/ Combine \/ Wrap)
Spec == Init /\ [][Next]_vars

----------------------------------------------------------------------
CombineAssociative ==
  \A i, j, k \in 1..Len(groups) :
    Comb(Comb(groups[i], groups[j]), groups[k]) = Comb(groups[i], Comb(groups[j], groups[k]))
CombineOrder ==
  \A i, j \in 1..Len(groups) :
    LET c == Comb(groups[i], groups[j]) IN
      /\ SubSeq(c.t, 1, Len(groups[i].t)) = groups[i].t
      /\ SubSeq(c.s, 1, Len(groups[i].s)) = groups[i].s
      /\ Len(Flat(c)) = Len(Flat(groups[i])) + Len(Flat(groups[j]))
WrapIsCombine ==
  \A n \in 1..Len(hist) : hist[n][1] = "Wrap" =>
    hist[n][3] = Comb(groups[hist[n][2][1]], G(<<>>, hist[n][2][2], <<>>))
ContextIsNew ==
  \A n \in 1..Len(hist) : hist[n][1] = "Context" => hist[n][3] = G(hist[n][2][1], hist[n][2][2], hist[n][2][3])
OperandsUntouched == [][\A i \in 1..Len(groups) : groups'[i] = groups[i]]_vars

Emit == (Len(hist) = MaxOps) => PrintT(<<"HIST", hist>>)
======================================================================
