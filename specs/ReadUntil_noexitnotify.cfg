CONSTANTS
  TIMEOUTS = TRUE
  NOTIFYEXIT = FALSE
  FIXED = TRUE
  FIXALL = TRUE
SPECIFICATION Spec
PROPERTY Termination
