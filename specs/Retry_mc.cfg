CONSTANTS
  Modes = {"loop", "retry"}
  Timeouts = {99, 0, 2, 5}
  Limits = {1, 2, 3}
  Sleeps = {0, 1, 2}
  Durs = {0, 1}
  MaxCalls = 4
SPECIFICATION Spec
INVARIANT AtLeastOnce
INVARIANT AtMostLimit
INVARIANT ValidEnds
INVARIANT Emit
CHECK_DEADLOCK FALSE
