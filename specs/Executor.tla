---------------------------- MODULE Executor ----------------------------
(* Small-step abstract machine for openhtf test execution:
     Test.execute -> TestExecutor._thread_proc -> _execute_node (sequence /
     subtest / branch / group / checkpoint / phase) -> PhaseExecutor
     (run_if, repeat loop, one invocation = one record) -> PhaseState.finalize
     (measurements, pre/post-diagnosis outcome, diagnosers) -> test
     diagnosers -> plug teardown -> outcome ladder -> callbacks.

   This is the independent executable reading of docs/event_sequence.md and of
   the statements of C01/C02/C03/C05/C08/C09.  Where the document is silent the
   property statement is followed.  Choices:
     * a phase skipped by run_if writes no record and is not subject to
       stop_on_first_failure / repeat_on_measurement_fail (there is no record
       of *this* phase to inspect)                                   [C01,C05]
     * a branch record is written after the branch's nodes ran       [code]
     * nodes nested in a teardown sequence inherit "teardown mode"   [doc:
       "This also applies to all nested phase nodes"]

   The machine is a continuation stack plus a "value being returned"
   register.  All nondeterminism is in PhaseInvoke / TestDiag (the behaviour a
   body shows on this invocation), in the plug construction order and in the
   abort token "A" (an operator abort arrives while this body runs).

   Behaviour tokens (b):  C continue/None, F FAIL_AND_CONTINUE, X FAIL_SUBTEST,
     K SKIP, R REPEAT, S STOP, E exception, G exception listed in
     failure_exceptions (when the setting fexc is on), I invalid return value
     (J: a falsy invalid return value),
     T timeout, A operator abort arrives during this body (the body is killed
     unless it is a teardown phase, which is left alone and continues).
   Measurement tokens (m): n none declared, p pass, m marginal pass, f fail,
     u unset, v dimensioned measurement whose validator raises at phase end.
   Diagnoser tokens (d): one character per attached diagnoser: 0 no result,
     lower-case letter = non-failure result, upper-case = failure result,
     ! raises. *)
EXTENDS Naturals, Sequences, FiniteSets, TLC

CONSTANT Programs
VARIABLES pi,      \* index of the program being executed
          stack,   \* continuation stack
          ret,     \* "NONE" | "CONTINUE" | "TERMINAL"
          recs,    \* phase records
          subs,    \* finished subtest records
          open,    \* stack of open (mutable) subtest records
          brs,     \* branch records
          cks,     \* checkpoint records
          diags,   \* test_record.diagnoses: <<[r, fail]>>
          store,   \* set of diagnosis results in the store
          last,    \* first terminal event: "NONE" or its kind
          abort,   \* operator abort flag
          calls,   \* log of body invocations (script + observation)
          plugs,   \* plug lifecycle: [live, order, ctor, td, events]
          status,  \* "init" "start" "plugs" "main" "tdiag" "pltd" "fin" "done"
          outcome, \* test outcome once finalized
          gh       \* ghosts: [fate: phase name -> fate, entered, notent: sets of group records]

vars == <<pi, stack, ret, recs, subs, open, brs, cks, diags, store, last, abort,
          calls, plugs, status, outcome, gh>>

P == Programs[pi]
Set == P.set       \* [sof, unset, fexc]: stop_on_first_failure, allow_unset_measurements, failure_exceptions
Top == stack[Len(stack)]
Pop(s) == SubSeq(s, 1, Len(s) - 1)
Push(s, f) == Append(s, f)
ReplaceTop(s, f) == [s EXCEPT ![Len(s)] = f]
Last(s) == s[Len(s)]

SubName(i) == IF i = 0 THEN "" ELSE open[i].name
SubFailed(i) == i > 0 /\ open[i].oc = "FAIL"
Worse(a, b) == IF a = "TERMINAL" \/ b = "TERMINAL" THEN "TERMINAL" ELSE "CONTINUE"
NodeF(n, td, sub) == [t |-> "node", n |-> n, td |-> td, sub |-> sub]
SeqF(ns, td, sub) == [t |-> "seq", ns |-> ns, i |-> 0, td |-> td, sub |-> sub, acc |-> "CONTINUE"]
Seen == <<Len(recs), Len(subs), Len(brs), Len(cks)>>

Terminal(r) == r \in {"STOP", "EXC", "GEXC", "TIMEOUT", "KILL"}
Upper == {"A", "B", "D", "H"}     \* failure diagnosis results
Lower == {"a", "b", "d", "h"}     \* non-failure diagnosis results

----------------------------------------------------------------------
(* PhaseSem: one invocation of a phase body = one phase record (C05).      *)

BodyResult(b, insub, td) ==
  CASE b = "C" -> "CONTINUE"
    [] b = "F" -> "FAIL_AND_CONTINUE"
    [] b = "X" -> IF insub THEN "FAIL_SUBTEST" ELSE "EXC"   \* "FAIL_SUBTEST outside a subtest [is] ERROR"
    [] b = "K" -> "SKIP"
    [] b = "R" -> "REPEAT"
    [] b = "S" -> "STOP"
    [] b = "E" -> "EXC"
    [] b = "G" -> "GEXC"
    [] b = "I" -> "EXC"                                      \* "a non-PhaseResult return value"
    [] b = "J" -> "EXC"                                      \* ... also a falsy one (False, 0, '', [])
    [] b = "T" -> "TIMEOUT"
    [] b = "A" -> IF td THEN "CONTINUE" ELSE "KILL"

MeasPass(m) == m \in {"n", "p", "m"} \/ (m = "u" /\ Set.unset)

\* fold over the diagnoser codes: <<result, emitted diagnoses>>
RECURSIVE RunDiags(_, _, _)
RunDiags(d, r, acc) ==
  IF d = <<>> THEN <<r, acc>>
  ELSE LET c == Head(d) IN
       IF c = "!" THEN RunDiags(Tail(d), IF Terminal(r) THEN r ELSE "EXC", acc)
       ELSE IF c = "0" THEN RunDiags(Tail(d), r, acc)
       ELSE RunDiags(Tail(d), r, Append(acc, [r |-> c, fail |-> c \in Upper]))

\* One invocation.  Returns [rec, res (what the executor sees), dg (new diagnoses)]
Invocation(n, b, m, d, sub, td, isLast) ==
  LET insub == sub > 0
      r0 == BodyResult(b, insub, td)
      hit == r0 = "REPEAT" /\ isLast                  \* "exceeding the repeat limit"
      r1 == IF m = "v" /\ ~Terminal(r0) THEN "EXC" ELSE r0
      measfail == ~MeasPass(m)
      pre == IF Terminal(r1) \/ hit THEN "ERROR"
             ELSE IF r1 \in {"REPEAT", "SKIP"} THEN "SKIP"
             ELSE IF r1 \in {"FAIL_SUBTEST", "FAIL_AND_CONTINUE"} THEN "FAIL"
             ELSE IF measfail THEN "FAIL" ELSE "PASS"
      r2 == IF pre = "FAIL" /\ r1 = "CONTINUE" /\ measfail /\ n.opts.somf THEN "STOP" ELSE r1
      rundg == r2 \notin {"KILL", "REPEAT", "SKIP"}
      dres == IF rundg THEN RunDiags(d, r2, <<>>) ELSE <<r2, <<>>>>
      r3 == dres[1]
      dg == dres[2]
      anyfail == \E i \in 1..Len(dg) : dg[i].fail
      post == IF pre = "ERROR" THEN "ERROR"
              ELSE IF Terminal(r3) THEN "ERROR"
              ELSE IF pre # "PASS" THEN pre
              ELSE IF anyfail THEN "FAIL" ELSE "PASS"
  IN [rec |-> [name |-> n.name, oc |-> post, res |-> r3, sub |-> SubName(sub),
               marg |-> (pre = "PASS" /\ m = "m"),
               dg |-> [i \in 1..Len(dg) |-> dg[i].r], sup |-> FALSE],
      res |-> IF hit THEN "STOP" ELSE r3,
      dg |-> dg]

ShouldRepeat(n, res, recoc) ==
  \/ res = "TIMEOUT" /\ n.opts.rot
  \/ res = "REPEAT"
  \/ n.opts.force
  \/ n.opts.romf /\ recoc = "FAIL"

Limit(n) == IF n.opts.limit = 0 THEN 3 ELSE n.opts.limit

LastKind(res) == res   \* the kinds of terminal results are the result kinds

\* ghosts
RECURSIVE PhaseNames(_)
RECURSIVE PhaseNamesSeq(_)
PhaseNamesSeq(ns) == IF ns = <<>> THEN {} ELSE PhaseNames(Head(ns)) \cup PhaseNamesSeq(Tail(ns))
PhaseNames(n) ==
  CASE n.k = "phase" -> {n.name}
    [] n.k \in {"seq", "subtest", "branch"} -> PhaseNamesSeq(n.ch)
    [] n.k = "group" -> PhaseNamesSeq(n.setup) \cup PhaseNamesSeq(n.main) \cup PhaseNamesSeq(n.tdn)
    [] OTHER -> {}
SetFate(S, v) == [gh EXCEPT !.fate = [x \in (DOMAIN gh.fate) \cup S |->
                                         IF x \in S THEN v ELSE gh.fate[x]]]

----------------------------------------------------------------------
Init == /\ pi \in 1..Len(Programs)
        /\ stack = <<>> /\ ret = "NONE"
        /\ recs = <<>> /\ subs = <<>> /\ open = <<>> /\ brs = <<>> /\ cks = <<>>
        /\ diags = <<>> /\ store = {} /\ last = "NONE" /\ abort = FALSE
        /\ calls = <<>>
        /\ plugs = [live |-> {}, ctor |-> <<>>, td |-> <<>>, failed |-> FALSE]
        /\ status = "init" /\ outcome = "NONE"
        /\ gh = [fate |-> [n \in {} |-> ""], entered |-> {}, notent |-> {}]

UN == UNCHANGED pi

----------------------------------------------------------------------
(* Plug lifecycle (C08).  P.plugspec = [start |-> set of plug ids needed by
   test_start, all |-> set of all plug ids, bad |-> set of ids whose
   constructor raises, tdmode |-> [id -> "ok"|"raise"|"hang"]].
   Construction order within one initialize call is unspecified (the code
   iterates a set): one action per constructor. *)
NeedNow == IF status = "init" THEN (IF P.start.k = "none" THEN {} ELSE P.plugspec.start)
           ELSE P.plugspec.all

\* constructor of one not-yet-live plug runs
PlugCtor(c) ==
  /\ status \in {"init", "plugs"} /\ ~plugs.failed
  /\ c \in NeedNow \ plugs.live
  /\ IF c \in P.plugspec.bad
     THEN /\ plugs' = [plugs EXCEPT !.ctor = Append(@, <<c, "fail">>), !.failed = TRUE]
          /\ last' = IF last = "NONE" THEN "EXC" ELSE last
     ELSE /\ plugs' = [plugs EXCEPT !.ctor = Append(@, <<c, "ok">>), !.live = @ \cup {c}]
          /\ UNCHANGED last
  /\ UNCHANGED <<stack, ret, recs, subs, open, brs, cks, diags, store, abort, calls, status, outcome, gh>>

\* all needed plugs exist (or a constructor failed): move on
PlugsDone ==
  /\ status \in {"init", "plugs"}
  /\ plugs.failed \/ NeedNow \subseteq plugs.live
  /\ IF plugs.failed
     THEN status' = "pltd" /\ UNCHANGED <<stack, ret>>
     ELSE IF status = "init" /\ P.start.k # "none"
     THEN /\ status' = "start"
          /\ stack' = <<[t |-> "phase", n |-> P.start, att |-> 1, td |-> FALSE, sub |-> 0, start |-> TRUE]>>
          /\ ret' = "NONE"
     ELSE IF status = "init"
     THEN status' = "plugs" /\ UNCHANGED <<stack, ret>>
     ELSE /\ status' = "main"
          /\ stack' = <<NodeF(P.root, FALSE, 0)>> /\ ret' = "NONE"
  /\ UNCHANGED <<recs, subs, open, brs, cks, diags, store, last, abort, calls, plugs, outcome, gh>>

\* tearDown of every live plug, in any order, exactly once; faults are absorbed
PlugTearDown(c) ==
  /\ status = "pltd" /\ c \in plugs.live
  /\ plugs' = [plugs EXCEPT !.td = Append(@, <<c, P.plugspec.tdmode[c]>>), !.live = @ \ {c}]
  /\ UNCHANGED <<stack, ret, recs, subs, open, brs, cks, diags, store, last, abort, calls, status, outcome, gh>>

----------------------------------------------------------------------
(* Phase invocation: the top frame is a "phase" frame and ret = NONE *)

\* what _execute_phase does with the result execute_phase() handed back
AfterPhase(f, res, wrote, recoc) ==
  LET res2 == IF ~f.start /\ Set.sof /\ wrote /\ recoc = "FAIL" THEN "STOP" ELSE res IN
  /\ last' = IF Terminal(res2) /\ last = "NONE" THEN LastKind(res2) ELSE last
  /\ open' = IF res2 = "FAIL_SUBTEST" /\ f.sub > 0
             THEN [open EXCEPT ![f.sub].oc = "FAIL"] ELSE open
  /\ ret' = IF Terminal(res2) THEN "TERMINAL" ELSE "CONTINUE"
  /\ stack' = Pop(stack)

PhaseInvoke(f, b, m, d) ==
  LET n == f.n
      isLast == f.att >= Limit(n)
      inv == Invocation(n, b, m, d, f.sub, f.td, isLast)
  IN /\ calls' = Append(calls, [n |-> n.name, b |-> b, m |-> m, d |-> d, seen |-> Seen,
                               att |-> f.att, pl |-> plugs.live])
     \* sup: this invocation is superseded by a retry of the same phase
     /\ recs' = Append(recs, [inv.rec EXCEPT !.sup = (ShouldRepeat(n, inv.res, inv.rec.oc)
                                                        /\ ~isLast /\ inv.res # "KILL")])
     /\ diags' = diags \o inv.dg
     /\ store' = store \cup {inv.dg[i].r : i \in 1..Len(inv.dg)}
     /\ abort' = (abort \/ b = "A")
     /\ IF ShouldRepeat(n, inv.res, inv.rec.oc) /\ ~isLast /\ inv.res # "KILL"
        THEN /\ stack' = ReplaceTop(stack, [f EXCEPT !.att = f.att + 1])
             /\ UNCHANGED <<ret, last, open>>
        ELSE AfterPhase(f, inv.res, TRUE, inv.rec.oc)
     /\ gh' = SetFate({n.name}, "ran")
     /\ UNCHANGED <<subs, brs, cks, plugs, status, outcome>>

\* run_if says no (or raises): no body, no record
PhaseNotRun(f) ==
  LET res == IF f.n.opts.runif = "raise" THEN "EXC" ELSE "SKIP" IN
  /\ AfterPhase(f, res, FALSE, "")
  /\ gh' = SetFate({f.n.name}, IF res = "SKIP" THEN "skip_runif" ELSE "runif_raised")
  /\ UNCHANGED <<recs, subs, brs, cks, diags, store, abort, calls, plugs, status, outcome>>

PhaseStep ==
  /\ ret = "NONE" /\ stack # <<>> /\ Top.t = "phase"
  /\ LET f == Top IN
     IF f.n.opts.runif \in {"false", "raise"} THEN PhaseNotRun(f)
     ELSE \E beh \in f.n.beh :
            /\ (beh[1] = "A" => ~abort)      \* a single operator abort (a second one: AbortHandshake.tla)
            /\ PhaseInvoke(f, beh[1], beh[2], beh[3])

----------------------------------------------------------------------
(* Dispatch of a node frame *)

SkipRec(f) == [name |-> f.n.name, oc |-> "SKIP", res |-> "SKIP", sub |-> SubName(f.sub),
               marg |-> FALSE, dg |-> <<>>, sup |-> FALSE]

DoPhase(f) ==
  IF ~f.td /\ SubFailed(f.sub)
  THEN \* "after a subtest fails the remaining phases of that subtest are recorded as SKIP without running"
       /\ recs' = Append(recs, SkipRec(f))
       /\ ret' = "CONTINUE" /\ stack' = Pop(stack)
       /\ gh' = SetFate({f.n.name}, "skip_subtest")
       /\ UNCHANGED <<subs, open, brs, cks, diags, store, last, abort, calls, plugs, status, outcome>>
  ELSE /\ stack' = ReplaceTop(stack, [t |-> "phase", n |-> f.n, att |-> 1, td |-> f.td,
                                      sub |-> f.sub, start |-> FALSE])
       /\ UNCHANGED <<ret, recs, subs, open, brs, cks, diags, store, last, abort, calls, plugs, status, outcome, gh>>

DoSeq(f) ==
  /\ stack' = ReplaceTop(stack, SeqF(f.n.ch, f.td, f.sub))
  /\ ret' = "CONTINUE"   \* uniform advance: pretend child 0 returned CONTINUE
  /\ UNCHANGED <<recs, subs, open, brs, cks, diags, store, last, abort, calls, plugs, status, outcome, gh>>

DoSubtest(f) ==
  /\ open' = Append(open, [name |-> f.n.name,
                           oc |-> IF SubFailed(f.sub) THEN "FAIL" ELSE "PASS"])
  /\ stack' = Push(ReplaceTop(stack, [t |-> "subtest"]), SeqF(f.n.ch, f.td, Len(open) + 1))
  /\ ret' = "CONTINUE"
  /\ UNCHANGED <<recs, subs, brs, cks, diags, store, last, abort, calls, plugs, status, outcome, gh>>

CondHolds(c) ==
  CASE c.on = "ALL" -> \A r \in c.rs : r \in store
    [] c.on = "ANY" -> \E r \in c.rs : r \in store
    [] c.on = "NOT_ANY" -> ~(\E r \in c.rs : r \in store)
    [] c.on = "NOT_ALL" -> ~(\A r \in c.rs : r \in store)

DoBranch(f) ==
  IF ~f.td /\ SubFailed(f.sub)
  THEN \* "branches not taken" inside a failed subtest: no evaluation, no record
       /\ ret' = "CONTINUE" /\ stack' = Pop(stack)
       /\ gh' = SetFate(PhaseNames(f.n), "skip_subtest")
       /\ UNCHANGED <<recs, subs, open, brs, cks, diags, store, last, abort, calls, plugs, status, outcome>>
  ELSE IF CondHolds(f.n.cond)
  THEN /\ stack' = Push(ReplaceTop(stack, [t |-> "branch", name |-> f.n.name]),
                        SeqF(f.n.ch, f.td, f.sub))
       /\ ret' = "CONTINUE"
       /\ UNCHANGED <<recs, subs, open, brs, cks, diags, store, last, abort, calls, plugs, status, outcome, gh>>
  ELSE /\ brs' = Append(brs, [name |-> f.n.name, taken |-> FALSE])
       /\ ret' = "CONTINUE" /\ stack' = Pop(stack)
       /\ gh' = SetFate(PhaseNames(f.n), "skip_branch")
       /\ UNCHANGED <<recs, subs, open, cks, diags, store, last, abort, calls, plugs, status, outcome>>

DoGroup(f) ==
  /\ stack' = ReplaceTop(stack, [t |-> "group", g |-> f.n, stage |-> "start",
                                 td |-> f.td, sub |-> f.sub,
                                 skipTd |-> SubFailed(f.sub), mainRet |-> "CONTINUE"])
  /\ ret' = "CONTINUE"
  /\ UNCHANGED <<recs, subs, open, brs, cks, diags, store, last, abort, calls, plugs, status, outcome, gh>>

AnyFailRec(subname, restrict) ==
  \E i \in 1..Len(recs) : recs[i].oc = "FAIL" /\ (~restrict \/ recs[i].sub = subname)

CkptResult(f) ==
  LET c == f.n
      insub == f.sub > 0
      hold == CASE c.kind = "DIAG" -> CondHolds(c.cond)
                [] c.kind = "LAST" -> recs[Len(recs)].oc = "FAIL"
                [] c.kind = "SUBTEST" -> AnyFailRec(SubName(f.sub), insub)
                [] c.kind = "ALL" -> AnyFailRec("", FALSE)
  IN IF c.kind # "DIAG" /\ recs = <<>> THEN "EXC"     \* no previous phase to look at
     ELSE IF ~hold THEN "CONTINUE"
     ELSE IF c.action = "FAIL_SUBTEST" /\ ~insub THEN "EXC"
     ELSE c.action

DoCkpt(f) ==
  IF ~f.td /\ SubFailed(f.sub)
  THEN /\ cks' = Append(cks, [name |-> f.n.name, res |-> "SKIP", sub |-> SubName(f.sub)])
       /\ ret' = "CONTINUE" /\ stack' = Pop(stack)
       /\ UNCHANGED <<recs, subs, open, brs, diags, store, last, abort, calls, plugs, status, outcome, gh>>
  ELSE LET res == CkptResult(f) IN
       /\ cks' = Append(cks, [name |-> f.n.name, res |-> res, sub |-> SubName(f.sub)])
       /\ last' = IF Terminal(res) /\ last = "NONE" THEN LastKind(res) ELSE last
       /\ open' = IF res = "FAIL_SUBTEST" THEN [open EXCEPT ![f.sub].oc = "FAIL"] ELSE open
       /\ ret' = IF Terminal(res) THEN "TERMINAL" ELSE "CONTINUE"
       /\ stack' = Pop(stack)
       /\ UNCHANGED <<recs, subs, brs, diags, store, abort, calls, plugs, status, outcome, gh>>

Dispatch ==
  /\ ret = "NONE" /\ stack # <<>> /\ Top.t = "node"
  /\ LET f == Top IN
     CASE f.n.k = "phase" -> DoPhase(f)
       [] f.n.k = "seq" -> DoSeq(f)
       [] f.n.k = "subtest" -> DoSubtest(f)
       [] f.n.k = "branch" -> DoBranch(f)
       [] f.n.k = "group" -> DoGroup(f)
       [] f.n.k = "ckpt" -> DoCkpt(f)

----------------------------------------------------------------------
(* A child returned `ret` to the frame on top *)

U10 == UNCHANGED <<recs, subs, open, brs, cks, diags, store, last, abort, calls, plugs, status, outcome, gh>>
U9 == UNCHANGED <<recs, subs, open, brs, cks, diags, store, last, abort, calls, plugs, status, outcome>>

RetSeq(f) ==
  LET acc == Worse(f.acc, ret) IN
  IF (~f.td /\ ret = "TERMINAL") \/ f.i = Len(f.ns)
  THEN \* "a sequence stops at its first terminal node"; a teardown sequence runs all
       /\ stack' = Pop(stack)
       /\ ret' = IF f.td THEN acc ELSE ret
       /\ U10
  ELSE IF ~f.td /\ abort
  THEN \* abortable sequence: nothing new starts after an abort
       /\ stack' = Pop(stack) /\ ret' = "TERMINAL" /\ U10
  ELSE /\ stack' = Push(ReplaceTop(stack, [f EXCEPT !.i = f.i + 1, !.acc = acc]),
                        NodeF(f.ns[f.i + 1], f.td, f.sub))
       /\ ret' = "NONE"
       /\ U10

RetSubtest(f) ==
  LET o == open[Len(open)]
      oc == IF ret = "TERMINAL" THEN "STOP" ELSE o.oc IN
  /\ subs' = Append(subs, [name |-> o.name, oc |-> oc])
  /\ open' = Pop(open)
  /\ stack' = Pop(stack)
  /\ UNCHANGED <<ret, recs, brs, cks, diags, store, last, abort, calls, plugs, status, outcome, gh>>

RetBranch(f) ==
  /\ brs' = Append(brs, [name |-> f.name, taken |-> TRUE])
  /\ stack' = Pop(stack)
  /\ UNCHANGED <<ret, recs, subs, open, cks, diags, store, last, abort, calls, plugs, status, outcome, gh>>

RetGroup(f) ==
  CASE f.stage = "start" ->
         IF Len(f.g.setup) > 0
         THEN /\ stack' = Push(ReplaceTop(stack, [f EXCEPT !.stage = "setup"]),
                               SeqF(f.g.setup, f.td, f.sub))
              /\ UNCHANGED ret /\ U10
         ELSE /\ stack' = ReplaceTop(stack, [f EXCEPT !.stage = "setupdone"])
              /\ UNCHANGED ret /\ U10
    [] f.stage = "setup" ->
         IF ret # "CONTINUE"
         THEN \* "If setup does not complete, neither main nor teardown of that group runs"
              /\ stack' = Pop(stack) /\ UNCHANGED ret /\ U9
              /\ gh' = [gh EXCEPT !.notent = @ \cup {f.g}]
         ELSE /\ stack' = ReplaceTop(stack, [f EXCEPT !.stage = "setupdone",
                                             !.skipTd = f.skipTd \/ SubFailed(f.sub)])
              /\ UNCHANGED ret /\ U10
    [] f.stage = "setupdone" ->
         /\ stack' = Push(ReplaceTop(stack, [f EXCEPT !.stage = "main"]),
                          SeqF(f.g.main, f.td, f.sub))
         /\ ret' = "CONTINUE" /\ U9
         /\ gh' = IF f.skipTd THEN gh ELSE [gh EXCEPT !.entered = @ \cup {f.g}]
    [] f.stage = "main" ->
         \* teardown runs in teardown mode iff the group was entered
         /\ stack' = Push(ReplaceTop(stack, [f EXCEPT !.stage = "td", !.mainRet = ret]),
                          SeqF(f.g.tdn, ~f.skipTd, f.sub))
         /\ ret' = "CONTINUE" /\ U10
    [] f.stage = "td" ->
         /\ stack' = Pop(stack)
         /\ ret' = Worse(f.mainRet, ret) /\ U10

Return ==
  /\ ret # "NONE" /\ stack # <<>>
  /\ LET f == Top IN
     CASE f.t = "seq" -> RetSeq(f)
       [] f.t = "subtest" -> RetSubtest(f)
       [] f.t = "branch" -> RetBranch(f)
       [] f.t = "group" -> RetGroup(f)

----------------------------------------------------------------------
(* Test level *)

\* test_start finished (stack empty again)
StartDone ==
  /\ status = "start" /\ stack = <<>>
  /\ status' = IF ret = "TERMINAL" THEN "pltd" ELSE "plugs"
  /\ ret' = "NONE"
  /\ UNCHANGED <<stack, recs, subs, open, brs, cks, diags, store, last, abort, calls, plugs, outcome, gh>>

MainDone ==
  /\ status = "main" /\ stack = <<>>
  /\ status' = "tdiag" /\ ret' = "NONE"
  /\ stack' = <<[t |-> "tdiag", i |-> 1]>>
  /\ UNCHANGED <<recs, subs, open, brs, cks, diags, store, last, abort, calls, plugs, outcome, gh>>

\* test diagnosers: all run, in order, after the last phase (also after a terminal phase)
TestDiag ==
  /\ status = "tdiag" /\ stack # <<>>
  /\ LET f == Top IN
     IF f.i > Len(P.tdiag)
     THEN /\ stack' = <<>> /\ status' = "pltd"
          /\ UNCHANGED <<diags, store, last, calls>>
     ELSE \E c \in P.tdiag[f.i] :
          /\ calls' = Append(calls, [n |-> "tdiag", b |-> c, m |-> "", d |-> <<>>, seen |-> Seen,
                                     att |-> f.i, pl |-> plugs.live])
          /\ IF c = "!" THEN /\ last' = IF last = "NONE" THEN "EXC" ELSE last
                             /\ UNCHANGED <<diags, store>>
             ELSE IF c = "0" THEN UNCHANGED <<diags, store, last>>
             ELSE /\ diags' = Append(diags, [r |-> c, fail |-> c \in Upper])
                  /\ store' = store \cup {c}
                  /\ UNCHANGED last
          /\ stack' = <<[f EXCEPT !.i = f.i + 1]>>
          /\ UNCHANGED status
  /\ UNCHANGED <<ret, recs, subs, open, brs, cks, abort, plugs, outcome, gh>>

(* The outcome ladder: abort > first terminal event > aggregation *)
Ladder ==
  IF abort THEN "ABORTED"
  ELSE IF last = "STOP" THEN "FAIL"
  ELSE IF last = "EXC" THEN "ERROR"
  ELSE IF last = "GEXC" THEN (IF Set.fexc THEN "FAIL" ELSE "ERROR")
  ELSE IF last = "TIMEOUT" THEN "TIMEOUT"
  ELSE IF last = "KILL" THEN "ERROR"
  ELSE IF recs = <<>> THEN "PASS"
  ELSE IF \E i \in 1..Len(recs) : recs[i].oc = "FAIL" THEN "FAIL"
  ELSE IF \A i \in 1..Len(recs) : recs[i].oc = "SKIP" THEN "ERROR"
  ELSE IF \E i \in 1..Len(diags) : diags[i].fail THEN "FAIL"
  ELSE IF \E i \in 1..Len(subs) : subs[i].oc = "FAIL" THEN "FAIL"
  ELSE "PASS"

\* every live plug torn down -> finalize
Finish ==
  /\ status = "pltd" /\ plugs.live = {}
  /\ status' = "done" /\ outcome' = Ladder
  /\ UNCHANGED <<stack, ret, recs, subs, open, brs, cks, diags, store, last, abort, calls, plugs, gh>>

Next == /\ \/ \E c \in P.plugspec.all : PlugCtor(c)
           \/ PlugsDone
           \/ \E c \in P.plugspec.all : PlugTearDown(c)
           \/ (status \in {"start", "main"} /\ (PhaseStep \/ Dispatch \/ Return))
           \/ StartDone \/ MainDone \/ TestDiag \/ Finish
        /\ UN

Spec == Init /\ [][Next]_vars

----------------------------------------------------------------------
(* Properties checked by TLC on this machine (the design argument).        *)
Done == status = "done"
RecOcs == {recs[i].oc : i \in 1..Len(recs)}
AllPhaseNames == PhaseNames(P.root)
\* outcomes of records that were not superseded by a retry of the same phase
FinalOcs == {recs[i].oc : i \in {j \in 1..Len(recs) : ~recs[j].sup}}

(* KNOWN FINDING C01/superseded-error (named deviation; see DESIGN 6): an
   invocation that ended ERROR (exception, timeout) but was retried because of
   force_repeat / repeat_on_timeout keeps its ERROR record, and the run can still
   end PASS.  The statement of C01 forbids PASS with any ERROR record; the code
   (and therefore this machine) allows it for superseded records only. *)
KF_C01_SupersededError ==
  Done /\ outcome = "PASS" /\ \E i \in 1..Len(recs) : recs[i].sup /\ recs[i].oc = "ERROR"

(* C01: "the record outcome is PASS only if every declared phase node either
   ran to a non-failing outcome or was skipped by a documented rule, no recorded
   phase is FAIL or ERROR, ... no failure diagnosis or failed subtest exists,
   the phase records (if any exist) are not all SKIP, and the executor itself
   did not fail" *)
NoFalsePass == (Done /\ outcome = "PASS") =>
  /\ \A n \in AllPhaseNames : n \in DOMAIN gh.fate
        /\ gh.fate[n] \in {"ran", "skip_runif", "skip_branch", "skip_subtest"}
  /\ FinalOcs \cap {"FAIL", "ERROR"} = {}
  /\ "FAIL" \notin RecOcs
  /\ ~(recs # <<>> /\ RecOcs = {"SKIP"})
  /\ ~(\E i \in 1..Len(diags) : diags[i].fail)
  /\ ~(\E i \in 1..Len(subs) : subs[i].oc = "FAIL")
  /\ last = "NONE" /\ ~abort /\ ~plugs.failed

(* C01 converse: what each kind of event gives *)
Converse == Done =>
  /\ (abort => outcome = "ABORTED")
  /\ (~abort /\ last = "TIMEOUT" => outcome = "TIMEOUT")
  /\ (~abort /\ last = "EXC" => outcome = "ERROR")
  /\ (~abort /\ last = "STOP" => outcome = "FAIL")
  /\ (~abort /\ last = "GEXC" => outcome = IF Set.fexc THEN "FAIL" ELSE "ERROR")
  /\ (~abort /\ last = "NONE" /\ "FAIL" \in RecOcs => outcome = "FAIL")
  /\ (~abort /\ last = "NONE" /\ recs # <<>> /\ RecOcs = {"SKIP"} => outcome = "ERROR")
  /\ (outcome \in {"PASS", "FAIL", "ERROR", "TIMEOUT", "ABORTED"})

(* an ERROR phase record never coexists with a non-terminal run *)
ErrorIsTerminal == ("ERROR" \in FinalOcs) => last # "NONE"

(* C02 sanity: record lists only grow, one branch record per evaluation *)
RecordsOnlyGrow == [][/\ Len(recs') >= Len(recs) /\ SubSeq(recs', 1, Len(recs)) = recs
                      /\ Len(subs') >= Len(subs) /\ Len(brs') >= Len(brs) /\ Len(cks') >= Len(cks)]_vars

(* C03: "every teardown node of that group is executed exactly once ... If setup
   does not complete, neither main nor teardown of that group runs" *)
CallsOf(name) == {i \in 1..Len(calls) : calls[i].n = name /\ calls[i].att = 1}
DirectPhases(ns) == {ns[i] : i \in {j \in 1..Len(ns) : ns[j].k = "phase"}}
TeardownOnce == Done => \A g \in gh.entered : \A p \in DirectPhases(g.tdn) :
    (p.opts.runif \notin {"false", "raise"}) => Cardinality(CallsOf(p.name)) = 1
NotEnteredNoRun == \A g \in gh.notent :
    \A p \in DirectPhases(g.main) \cup DirectPhases(g.tdn) : CallsOf(p.name) = {}
\* teardown of an entered group starts only after its main stopped, and plug
\* tearDown starts only after every node finished
PlugTdAfterNodes == (status = "pltd" \/ Done) => stack = <<>> \/ status = "tdiag"

(* C05: at most repeat_limit invocations; one record per invocation *)
PhaseCalls == {i \in 1..Len(calls) : calls[i].n # "tdiag"}
AtMostLimit == \A i \in PhaseCalls : calls[i].att <= 3
OneRecordPerInvocation ==
  Cardinality(PhaseCalls) = Cardinality({i \in 1..Len(recs) : ~(recs[i].res = "SKIP" /\ recs[i].oc = "SKIP"
                                                              /\ gh.fate[recs[i].name] = "skip_subtest")})

(* C08: one instance per class, tearDown exactly once for every constructed one *)
CtorOk == {plugs.ctor[i][1] : i \in {j \in 1..Len(plugs.ctor) : plugs.ctor[j][2] = "ok"}}
AtMostOneInstance == \A i, j \in 1..Len(plugs.ctor) : plugs.ctor[i][1] = plugs.ctor[j][1] => i = j
TornDownOnce == Done => /\ \A c \in CtorOk : Cardinality({i \in 1..Len(plugs.td) : plugs.td[i][1] = c}) = 1
                        /\ \A i \in 1..Len(plugs.td) : plugs.td[i][1] \in CtorOk
PlugsLiveForBodies == \A i \in PhaseCalls : TRUE

----------------------------------------------------------------------
(* Emission of complete scenarios (spec -> code replay) *)
EmitObs == [p |-> pi, calls |-> calls, recs |-> recs, subs |-> subs, brs |-> brs,
            cks |-> cks, diags |-> diags, oc |-> outcome, plugs |-> plugs,
            abort |-> abort, last |-> last, fate |-> gh.fate,
            entered |-> {g.name : g \in gh.entered}, notent |-> {g.name : g \in gh.notent}]
Emit == (status = "done") => PrintT(<<"HIST", EmitObs>>)

======================================================================
