CONSTANTS
  FIXED = TRUE
  FIXALL = TRUE
SPECIFICATION Spec
PROPERTY Termination
