CONSTANTS
  RECHECK = TRUE
  Wire <- W5
  Streams <- S3
SPECIFICATION Spec
INVARIANT InOrder
INVARIANT LockOwner
PROPERTY AllDelivered
PROPERTY Termination
