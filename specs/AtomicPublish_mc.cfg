CONSTANTS
  N = 3
  HadOld = TRUE
  PublishOnError = FALSE
SPECIFICATION Spec
INVARIANT AtomicDest
INVARIANT SuccessPublishes
INVARIANT FailureKeepsOld
INVARIANT NoStagingLeftBehind
CHECK_DEADLOCK FALSE
