CONSTANTS
  Paths = {"pass", "fail", "stop", "error", "start_terminal", "plug_fail", "timeout", "abort"}
  NCb = 3
  MaxCalls = 2
  RaiseSets = {{}, {1}, {2, 3}, {1, 2, 3}, {2}}
  Duts = {TRUE, FALSE}
SPECIFICATION Spec
INVARIANT TypeOK
INVARIANT NoLeak
INVARIANT AtMostOneRun
INVARIANT CallbacksInOrder
INVARIANT NoCallbackBeforeFinal
INVARIANT ReturnIffPass
PROPERTY AllCallbacksAtEnd
PROPERTY OverlapDisturbsNothing
CHECK_DEADLOCK FALSE
