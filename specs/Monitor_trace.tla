---------------------------- MODULE Monitor_trace ----------------------------
(* Trace validation for the Monitor extension: executions of real monitored
   phases recorded under the deterministic scheduler (virtual time, integer
   milliseconds) must be behaviours of Monitor.tla.  Events:
     start t          the monitor thread was started (the body begins)
     call n t         the monitor function was called for the n-th time
     store key val t  a row was written into the measurement
     bodyend t        the phase body returned / raised
     kill t           monitor_thread.kill() called
     dead t           the monitor thread finished
     joined t         monitor_thread.join() returned
   The clock is a silent step: it jumps to the time of the next event, which
   Monitor!CanAdvanceTo must allow (no due sample is skipped). *)
EXTENDS Monitor, Json, IOUtils

Traces == JsonDeserialize(IOEnv.TRACE_FILE)
VARIABLES tid, l
tvars == <<vars, tid, l>>
Ev == Traces[tid].ev
E == Ev[l]

TInit == Init /\ tid \in 1..Len(Traces) /\ l = 1
More == l <= Len(Ev)
Consume == l' = l + 1 /\ UNCHANGED tid

Jump == /\ More /\ E.t > now /\ CanAdvanceTo(E.t) /\ ~joined
        /\ now' = E.t
        /\ UNCHANGED <<mstate, mstart, calls, pend, stored, last, bodyDone, killReq, joined, tid, l>>

At == More /\ E.t = now
TStart == At /\ E.e = "start" /\ Consume /\ Start
TCall == At /\ E.e = "call" /\ Consume /\ Call /\ calls' = E.n
TStore == At /\ E.e = "store" /\ Consume /\ Store
          /\ stored'[Len(stored')] = <<E.key, E.val>>
TBodyEnd == At /\ E.e = "bodyend" /\ Consume /\ BodyEnd
TKill == At /\ E.e = "kill" /\ Consume /\ Kill
TDead == At /\ E.e = "dead" /\ Consume /\ Die
TJoined == At /\ E.e = "joined" /\ Consume /\ Join

TNext == Jump \/ TStart \/ TCall \/ TStore \/ TBodyEnd \/ TKill \/ TDead \/ TJoined
TSpec == TInit /\ [][TNext]_tvars
Accept == (l = Len(Ev) + 1) => PrintT(<<"ACCEPT", Traces[tid].id>>)
==============================================================================
