SPECIFICATION Spec
INVARIANT Checks
INVARIANT EmitInv
CHECK_DEADLOCK FALSE
