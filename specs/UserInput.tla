---------------------------- MODULE UserInput ----------------------------
(* Extension of the specification beyond the listed properties (it serves the
   "frontend-aware plug" clause of C18): the prompt protocol of
   openhtf.plugs.user_input.UserInput.

   Phase thread:   start_prompt (under _cond: refuse if a prompt exists, create
                   prompt id, notify_update) ; wait_for_prompt (under _cond: if the
                   prompt still exists wait on the condition, with a timeout; then
                   return the response or raise PromptUnansweredError)
   Frontend:       respond(id, text) (under _cond: ignore unless id is the current
                   prompt; store response, remove prompt (notify_update),
                   notify the condition)
   Frontend watcher: the snapshot/event protocol of Subscribe.tla on _asdict().

   Checked here: a response is delivered to the prompt it was given for and to
   no other; a stale or wrong id changes nothing; wait_for_prompt returns
   (response, or unanswered after the timeout) - it never blocks forever when
   the prompt was answered before it started waiting. *)
EXTENDS Naturals, Sequences, FiniteSets, TLC

CONSTANTS NPrompts, Responders

(* --algorithm UserInput
variables lock = 0,            \* 0 free, else owner id (the condition's RLock, depth 1 is enough)
          prompt = 0,          \* current prompt id, 0 = none
          response = 0,        \* response stored for the phase (0 = none); a response value = 100*id + responder
          waiting = FALSE,     \* the phase is blocked in _cond.wait
          notified = FALSE,
          nextId = 1,
          result = <<>>,       \* per prompt: what wait_for_prompt returned (0 = unanswered)
          updates = 0;         \* notify_update calls (watchers' view changed)

define
  PhaseId == 1
  RespId(r) == 10 + r
  \* every returned response was given for exactly that prompt
  ResponseMatchesPrompt == \A i \in 1..Len(result) : result[i] = 0 \/ (result[i] \div 100) = i
  AtMostOnePrompt == prompt \in 0..NPrompts
end define;

fair process Phase = PhaseId
variables k = 0;
begin
p0:   while k < NPrompts do
s1:     await lock = 0; lock := PhaseId;                 \* start_prompt
s2:     prompt := nextId; nextId := nextId + 1; response := 0; updates := updates + 1; lock := 0;
w1:     await lock = 0; lock := PhaseId;                 \* wait_for_prompt
w2:     if prompt # 0 then
          waiting := TRUE; notified := FALSE; lock := 0; \* _cond.wait releases the lock
w3:       either await notified; or skip; end either;    \* notify, or the timeout expires
w4:       await lock = 0; lock := PhaseId; waiting := FALSE;
        end if;
w5:     result := Append(result, response);
        if prompt # 0 then                               \* unanswered: the phase gives up; tearDown/remove_prompt later
          prompt := 0; updates := updates + 1;
        end if;
        lock := 0; k := k + 1;
      end while;
end process;

fair process Resp \in {RespId(r) : r \in Responders}
variables target = 0, n = 0;
begin
r0:   while n < NPrompts do
r1:     with t \in 1..NPrompts do target := t; end with; \* the frontend answers some prompt id (maybe stale, maybe future)
r2:     await lock = 0; lock := self;
r3:     if prompt # 0 /\ prompt = target then
          response := 100 * target + (self - 10);
          prompt := 0; updates := updates + 1;
          notified := TRUE;
        end if;
        lock := 0; n := n + 1;
      end while;
end process;
end algorithm; *)
\* BEGIN TRANSLATION (chksum(pcal) = "9c644d24" /\ chksum(tla) = "4252a459")
VARIABLES pc, lock, prompt, response, waiting, notified, nextId, result, 
          updates

(* define statement *)
PhaseId == 1
RespId(r) == 10 + r

ResponseMatchesPrompt == \A i \in 1..Len(result) : result[i] = 0 \/ (result[i] \div 100) = i
AtMostOnePrompt == prompt \in 0..NPrompts

VARIABLES k, target, n

vars == << pc, lock, prompt, response, waiting, notified, nextId, result, 
           updates, k, target, n >>

ProcSet == {PhaseId} \cup ({RespId(r) : r \in Responders})

Init == (* Global variables *)
        /\ lock = 0
        /\ prompt = 0
        /\ response = 0
        /\ waiting = FALSE
        /\ notified = FALSE
        /\ nextId = 1
        /\ result = <<>>
        /\ updates = 0
        (* Process Phase *)
        /\ k = 0
        (* Process Resp *)
        /\ target = [self \in {RespId(r) : r \in Responders} |-> 0]
        /\ n = [self \in {RespId(r) : r \in Responders} |-> 0]
        /\ pc = [self \in ProcSet |-> CASE self = PhaseId -> "p0"
                                        [] self \in {RespId(r) : r \in Responders} -> "r0"]

p0 == /\ pc[PhaseId] = "p0"
      /\ IF k < NPrompts
            THEN /\ pc' = [pc EXCEPT ![PhaseId] = "s1"]
            ELSE /\ pc' = [pc EXCEPT ![PhaseId] = "Done"]
      /\ UNCHANGED << lock, prompt, response, waiting, notified, nextId, 
                      result, updates, k, target, n >>

s1 == /\ pc[PhaseId] = "s1"
      /\ lock = 0
      /\ lock' = PhaseId
      /\ pc' = [pc EXCEPT ![PhaseId] = "s2"]
      /\ UNCHANGED << prompt, response, waiting, notified, nextId, result, 
                      updates, k, target, n >>

s2 == /\ pc[PhaseId] = "s2"
      /\ prompt' = nextId
      /\ nextId' = nextId + 1
      /\ response' = 0
      /\ updates' = updates + 1
      /\ lock' = 0
      /\ pc' = [pc EXCEPT ![PhaseId] = "w1"]
      /\ UNCHANGED << waiting, notified, result, k, target, n >>

w1 == /\ pc[PhaseId] = "w1"
      /\ lock = 0
      /\ lock' = PhaseId
      /\ pc' = [pc EXCEPT ![PhaseId] = "w2"]
      /\ UNCHANGED << prompt, response, waiting, notified, nextId, result, 
                      updates, k, target, n >>

w2 == /\ pc[PhaseId] = "w2"
      /\ IF prompt # 0
            THEN /\ waiting' = TRUE
                 /\ notified' = FALSE
                 /\ lock' = 0
                 /\ pc' = [pc EXCEPT ![PhaseId] = "w3"]
            ELSE /\ pc' = [pc EXCEPT ![PhaseId] = "w5"]
                 /\ UNCHANGED << lock, waiting, notified >>
      /\ UNCHANGED << prompt, response, nextId, result, updates, k, target, n >>

w3 == /\ pc[PhaseId] = "w3"
      /\ \/ /\ notified
         \/ /\ TRUE
      /\ pc' = [pc EXCEPT ![PhaseId] = "w4"]
      /\ UNCHANGED << lock, prompt, response, waiting, notified, nextId, 
                      result, updates, k, target, n >>

w4 == /\ pc[PhaseId] = "w4"
      /\ lock = 0
      /\ lock' = PhaseId
      /\ waiting' = FALSE
      /\ pc' = [pc EXCEPT ![PhaseId] = "w5"]
      /\ UNCHANGED << prompt, response, notified, nextId, result, updates, k, 
                      target, n >>

w5 == /\ pc[PhaseId] = "w5"
      /\ result' = Append(result, response)
      /\ IF prompt # 0
            THEN /\ prompt' = 0
                 /\ updates' = updates + 1
            ELSE /\ TRUE
                 /\ UNCHANGED << prompt, updates >>
      /\ lock' = 0
      /\ k' = k + 1
      /\ pc' = [pc EXCEPT ![PhaseId] = "p0"]
      /\ UNCHANGED << response, waiting, notified, nextId, target, n >>

Phase == p0 \/ s1 \/ s2 \/ w1 \/ w2 \/ w3 \/ w4 \/ w5

r0(self) == /\ pc[self] = "r0"
            /\ IF n[self] < NPrompts
                  THEN /\ pc' = [pc EXCEPT ![self] = "r1"]
                  ELSE /\ pc' = [pc EXCEPT ![self] = "Done"]
            /\ UNCHANGED << lock, prompt, response, waiting, notified, nextId, 
                            result, updates, k, target, n >>

r1(self) == /\ pc[self] = "r1"
            /\ \E t \in 1..NPrompts:
                 target' = [target EXCEPT ![self] = t]
            /\ pc' = [pc EXCEPT ![self] = "r2"]
            /\ UNCHANGED << lock, prompt, response, waiting, notified, nextId, 
                            result, updates, k, n >>

r2(self) == /\ pc[self] = "r2"
            /\ lock = 0
            /\ lock' = self
            /\ pc' = [pc EXCEPT ![self] = "r3"]
            /\ UNCHANGED << prompt, response, waiting, notified, nextId, 
                            result, updates, k, target, n >>

r3(self) == /\ pc[self] = "r3"
            /\ IF prompt # 0 /\ prompt = target[self]
                  THEN /\ response' = 100 * target[self] + (self - 10)
                       /\ prompt' = 0
                       /\ updates' = updates + 1
                       /\ notified' = TRUE
                  ELSE /\ TRUE
                       /\ UNCHANGED << prompt, response, notified, updates >>
            /\ lock' = 0
            /\ n' = [n EXCEPT ![self] = n[self] + 1]
            /\ pc' = [pc EXCEPT ![self] = "r0"]
            /\ UNCHANGED << waiting, nextId, result, k, target >>

Resp(self) == r0(self) \/ r1(self) \/ r2(self) \/ r3(self)

(* Allow infinite stuttering to prevent deadlock on termination. *)
Terminating == /\ \A self \in ProcSet: pc[self] = "Done"
               /\ UNCHANGED vars

Next == Phase
           \/ (\E self \in {RespId(r) : r \in Responders}: Resp(self))
           \/ Terminating

Spec == /\ Init /\ [][Next]_vars
        /\ WF_vars(Phase)
        /\ \A self \in {RespId(r) : r \in Responders} : WF_vars(Resp(self))

Termination == <>(\A self \in ProcSet: pc[self] = "Done")

\* END TRANSLATION 

PhaseReturns == <>(pc[PhaseId] = "Done")
\* a response given while the phase is between start_prompt and wait_for_prompt is not lost
AnsweredIsReturned == [][\A i \in 1..Len(result') : i > Len(result) =>
                           (response # 0 => result'[i] = response)]_vars
====
