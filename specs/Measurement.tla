---------------------------- MODULE Measurement ----------------------------
(* Per-phase measurement store (C06) and its incrementally cached base-type
   rendering (C10): openhtf.core.measurements.{Collection, Measurement,
   MeasuredValue, DimensionedMeasuredValue} + PhaseState._finalize_measurements.

   A phase declares a scalar measurement "s" and a one-dimensional measurement
   "d" (coordinates 1, 2).  Values are abstract 0..4; a validator is a triple
   of sets [acc, mar, rz]: accepts / deems marginal / raises on.  Validators are
   called in order and evaluation stops at the first one that does not accept
   (Python's all()), so a raising validator is only reached if all earlier
   ones accepted.  A transform is one of "none", "inc" (v+1 mod 5), "clamp"
   (min(v, 2)).

   History operations (each is one statement of the phase body):
     SetS(v)        test.measurements.s = v
     SetD(c, v)     test.measurements.d[c] = v
     BadArity(v)    test.measurements.d[1, 2] = v        rejected
     NoCoord(v)     test.measurements.d = v              rejected
     Undeclared(v)  test.measurements.nope = v           rejected
     Read           read of the live (running phase) base-type view   [C10]
     EndPhase       the body returns; PhaseState.finalize() runs *)
EXTENDS Integers, Sequences, FiniteSets, TLC

CONSTANTS Cfgs,      \* sequence of [sv, st, dv, dt, ops]: validators/transform of s and d, enabled ops
          MaxOps     \* bound on body operations

VARIABLES ci,        \* index of the configuration in use
          sval,      \* recorded value of s: -1 = never assigned
          soc,       \* outcome of s: "UNSET" "PASS" "FAIL"
          smar,      \* marginal flag of s
          dvals,     \* recorded rows of d: sequence of <<coord, value>> in first-assignment order
          doc,       \* outcome of d: "UNSET" "PARTIALLY_SET" "PASS" "FAIL"
          dmar,
          evals, eoc, emar,   \* a second dimensioned measurement "e", declared after "d"
          ended,     \* phase finished
          perr,      \* "none" | "EXC": error surfaced to the phase
          hist       \* <<op, exception raised to the body ("" = none), observation>>

vars == <<ci, sval, soc, smar, dvals, doc, dmar, evals, eoc, emar, ended, perr, hist>>
C == Cfgs[ci]
Vals == 0..4

T(t, v) == CASE t = "none" -> v [] t = "inc" -> (v + 1) % 5 [] t = "clamp" -> IF v > 2 THEN 2 ELSE v

(* Python's all(v(x) for v in validators): "PASS" | "FAIL" | "RAISE" *)
RECURSIVE EvalS(_, _)
EvalS(vs, x) ==
  IF vs = <<>> THEN "PASS"
  ELSE LET v == Head(vs) IN
       IF x \in v.rz THEN "RAISE"
       ELSE IF x \notin v.acc THEN "FAIL"
       ELSE EvalS(Tail(vs), x)

MarS(vs, x) == \E i \in 1..Len(vs) : x \in vs[i].mar

(* validators of the dimensioned measurement look at every recorded row *)
RowVals(rows) == {rows[i][2] : i \in 1..Len(rows)}
RECURSIVE EvalD(_, _)
EvalD(vs, rows) ==
  IF vs = <<>> THEN "PASS"
  ELSE LET v == Head(vs) IN
       IF RowVals(rows) \cap v.rz # {} THEN "RAISE"
       ELSE IF ~(RowVals(rows) \subseteq v.acc) THEN "FAIL"
       ELSE EvalD(Tail(vs), rows)
MarD(vs, rows) == \E i \in 1..Len(vs) : RowVals(rows) \cap vs[i].mar # {}

(* the from-scratch rendering of the in-memory state (what a read must return) *)
Obs == [s |-> <<sval, soc, smar>>, d |-> <<dvals, doc, dmar>>, e |-> <<evals, eoc, emar>>, perr |-> perr]
Rec(op, exc) == hist' = Append(hist, <<op, exc, Obs'>>)      \* last conjunct of an action

Init == /\ ci \in 1..Len(Cfgs)
        /\ sval = -1 /\ soc = "UNSET" /\ smar = FALSE
        /\ dvals = <<>> /\ doc = "UNSET" /\ dmar = FALSE
        /\ evals = <<>> /\ eoc = "UNSET" /\ emar = FALSE
        /\ ended = FALSE /\ perr = "none" /\ hist = <<>>

Can(op) == ~ended /\ Len(hist) < MaxOps /\ op \in C.ops

(* "the recorded value is the transform of the last assigned value"; "PASS
   exactly when every attached validator accepts that recorded value, else
   FAIL"; "marginal is true only if the outcome is PASS and some validator deems
   the recorded value marginal"; "a validator that raises marks the measurement
   FAIL and surfaces as an error ... raised at the assignment" *)
\* "(plus conditional validators whose diagnosis result existed when the phase
\* started)": C.cv are the validators declared with validate_on, C.cvon says
\* whether their diagnosis result was in the store when the phase started
SV == IF C.cvon THEN C.sv \o C.cv ELSE C.sv
SetS(v) ==
  /\ Can("SetS")
  /\ LET x == T(C.st, v)
         e == EvalS(SV, x) IN
     /\ sval' = x
     /\ soc' = IF e = "PASS" THEN "PASS" ELSE "FAIL"
     /\ smar' = (e = "PASS" /\ MarS(SV, x))
     /\ UNCHANGED <<ci, dvals, doc, dmar, evals, eoc, emar, ended, perr>>
     /\ Rec(<<"SetS", v>>, IF e = "RAISE" THEN "ValidatorError" ELSE "")

PosOf(c) == IF \E i \in 1..Len(dvals) : dvals[i][1] = c
            THEN CHOOSE i \in 1..Len(dvals) : dvals[i][1] = c ELSE 0

(* "per coordinate, in first-assignment order" *)
SetD(c, v) ==
  /\ Can("SetD")
  /\ LET x == T(C.dt, v)
         p == PosOf(c) IN
     /\ dvals' = IF p = 0 THEN Append(dvals, <<c, x>>) ELSE [dvals EXCEPT ![p] = <<c, x>>]
     /\ doc' = "PARTIALLY_SET"
     /\ UNCHANGED <<ci, sval, soc, smar, dmar, evals, eoc, emar, ended, perr>>
     /\ Rec(<<"SetD", c, v>>, "")

PosOfE(c) == IF \E i \in 1..Len(evals) : evals[i][1] = c
             THEN CHOOSE i \in 1..Len(evals) : evals[i][1] = c ELSE 0
SetE(c, v) ==
  /\ Can("SetE")
  /\ LET x == T(C.et, v)
         p == PosOfE(c) IN
     /\ evals' = IF p = 0 THEN Append(evals, <<c, x>>) ELSE [evals EXCEPT ![p] = <<c, x>>]
     /\ eoc' = "PARTIALLY_SET"
     /\ UNCHANGED <<ci, sval, soc, smar, dvals, doc, dmar, emar, ended, perr>>
     /\ Rec(<<"SetE", c, v>>, "")

(* "an assignment to an undeclared name, to a dimensioned measurement without
   coordinates, or with the wrong number of coordinates is rejected and changes
   nothing" *)
Rejected(op, v, exc) ==
  /\ Can(op)
  /\ UNCHANGED <<ci, sval, soc, smar, dvals, doc, dmar, evals, eoc, emar, ended, perr>>
  /\ Rec(<<op, v>>, exc)

Read ==
  /\ Can("Read")
  /\ UNCHANGED <<ci, sval, soc, smar, dvals, doc, dmar, evals, eoc, emar, ended, perr>>
  /\ Rec(<<"Read">>, "")

(* "No measurement leaves a phase PARTIALLY_SET"; "... raised ... at phase end
   for dimensioned measurements" *)
EndPhase ==
  /\ ~ended /\ hist # <<>>
  /\ ended' = TRUE
  \* every partially set measurement is validated, each on its own: a raising
  \* validator of one does not keep the others from being validated
  /\ LET ed == IF doc = "PARTIALLY_SET" THEN EvalD(C.dv, dvals) ELSE "SKIP"
         ee == IF eoc = "PARTIALLY_SET" THEN EvalD(C.ev, evals) ELSE "SKIP" IN
     /\ doc' = IF ed = "SKIP" THEN doc ELSE IF ed = "PASS" THEN "PASS" ELSE "FAIL"
     /\ dmar' = IF ed = "SKIP" THEN dmar ELSE (ed = "PASS" /\ MarD(C.dv, dvals))
     /\ eoc' = IF ee = "SKIP" THEN eoc ELSE IF ee = "PASS" THEN "PASS" ELSE "FAIL"
     /\ emar' = IF ee = "SKIP" THEN emar ELSE (ee = "PASS" /\ MarD(C.ev, evals))
     /\ perr' = IF ed = "RAISE" \/ ee = "RAISE" THEN "EXC" ELSE perr
  /\ UNCHANGED <<ci, sval, soc, smar, dvals, evals>>
  /\ Rec(<<"EndPhase">>, "")

Next == \/ \E v \in Vals : SetS(v)
        \/ \E c \in {1, 2}, v \in Vals : SetD(c, v)
        \/ \E v \in Vals : SetE(1, v)
        \/ \E v \in {1} : Rejected("BadArity", v, "InvalidDimensionsError")
        \/ \E v \in {1} : Rejected("NoCoord", v, "InvalidDimensionsError")
        \/ \E v \in {1} : Rejected("Undeclared", v, "NotAMeasurementError")
        \/ Read
        \/ EndPhase

Spec == Init /\ [][Next]_vars

----------------------------------------------------------------------
(* Properties (C06) on the model *)
TypeOK == /\ sval \in {-1} \cup Vals /\ soc \in {"UNSET", "PASS", "FAIL"}
          /\ doc \in {"UNSET", "PARTIALLY_SET", "PASS", "FAIL"}

UnsetIffNeverAssigned == (soc = "UNSET" <=> sval = -1) /\ (doc = "UNSET" <=> dvals = <<>>)
OutcomeFormula == sval # -1 => (soc = "PASS" <=> EvalS(SV, sval) = "PASS")
MarginalFormula == /\ smar => (soc = "PASS" /\ MarS(SV, sval))
                   /\ dmar => (doc = "PASS" /\ MarD(C.dv, dvals))
NoPartiallySet == ended => (doc # "PARTIALLY_SET" /\ eoc # "PARTIALLY_SET")
SecondDimOutcome == (ended /\ evals # <<>>) => (eoc = "PASS" <=> EvalD(C.ev, evals) = "PASS")
DimOutcomeFormula == (ended /\ dvals # <<>>) => (doc = "PASS" <=> EvalD(C.dv, dvals) = "PASS")
RaisingSurfaces == (ended /\ dvals # <<>> /\ EvalD(C.dv, dvals) = "RAISE") => (doc = "FAIL" /\ perr = "EXC")
DistinctCoords == \A i, j \in 1..Len(dvals) : dvals[i][1] = dvals[j][1] => i = j
\* the order of first assignment is never changed by an override
OrderStable == [][\A i \in 1..Len(dvals) : Len(dvals') >= i /\ dvals'[i][1] = dvals[i][1]]_vars
RejectedChangeNothing ==
  [][(Len(hist') > Len(hist) /\ hist'[Len(hist')][1][1] \in {"BadArity", "NoCoord", "Undeclared", "Read"})
       => UNCHANGED <<sval, soc, smar, dvals, doc, dmar, evals, eoc, emar, perr>>]_vars

Emit == ended => PrintT(<<"HIST", ci, hist>>)
View == <<ci, sval, soc, smar, dvals, doc, dmar, evals, eoc, emar, ended, perr>>
======================================================================
