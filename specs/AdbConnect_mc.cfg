CONSTANTS
  MaxLen = 5
  MaxKeys = 2
SPECIFICATION Spec
INVARIANT ConnectedOnlyAfterCnxn
INVARIANT SignsOnlyTokens
INVARIANT KeysInOrder
INVARIANT PubkeyOnceAfterAll
INVARIANT NoConnectionOnError
INVARIANT Emit
CHECK_DEADLOCK FALSE
