CONSTANTS
  NPrompts = 2
  Responders = {1, 2}
SPECIFICATION Spec
INVARIANT ResponseMatchesPrompt
INVARIANT AtMostOnePrompt
PROPERTY PhaseReturns
PROPERTY AnsweredIsReturned
CHECK_DEADLOCK FALSE
