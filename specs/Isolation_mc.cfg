CONSTANTS
  MaxOps = 4
  MaxObjs = 4
SPECIFICATION Spec
INVARIANT NoMutationOfOperands
INVARIANT Emit
PROPERTY ValuesOnlyAppended
CHECK_DEADLOCK FALSE
