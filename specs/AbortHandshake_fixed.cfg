CONSTANTS
  NMain = 2
  NTd = 2
  NAborters = 2
  ResetInAbort = FALSE
SPECIFICATION Spec
INVARIANT AtMostOneBody
INVARIANT NoStartAfterAbortReturned
INVARIANT NoBodyAfterFinalize
INVARIANT AbortedWins
INVARIANT NotAbortedWithoutAbort
INVARIANT TeardownAllRun
INVARIANT NoDoubleStart
PROPERTY ExecReturns
PROPERTY AbortsReturn
CHECK_DEADLOCK FALSE
