---------------------------- MODULE Subscribe_trace ----------------------------
(* Trace validation for C18: executions recorded from the real
   SubscribableStateMixin under the deterministic scheduler are checked to be
   behaviours of Subscribe.tla.  Events (one JSON object each):
     acq/rel  t        the mixin's lock acquired / released by thread t
     snap     w v      watcher w's _asdict() ran and saw version v
     chg      u v      updater u changed the state to version v
     set      w        the event currently held by watcher w was set
     woke     w        watcher w returned from event.wait()
   Loop tests (wloop, uloop) and the final wait of a watcher that already saw
   the last version are silent steps. *)
EXTENDS Subscribe, Json, IOUtils, Sequences

Traces == JsonDeserialize(IOEnv.TRACE_FILE)
VARIABLES tid, l, pend
tvars == <<vars, tid, l, pend>>
Ev == Traces[tid].ev
E == Ev[l]

TInit == Init /\ tid \in 1..Len(Traces) /\ l = 1 /\ pend = {}

More == l <= Len(Ev)
Consume == l' = l + 1 /\ UNCHANGED tid

\* A silent step is taken only by the thread of the next event, immediately
\* before it (this keeps validation linear in the trace length).
Silent == /\ More /\ UNCHANGED <<tid, l, pend>>
          /\ \/ (E.e = "acq" /\ E.t \in Watchers /\ pc[E.t] = "wloop" /\ wloop(E.t))
             \/ (E.e = "chg" /\ pc[E.u] = "uloop" /\ uloop(E.u))
             \/ (E.e = "acq" /\ E.t \in Watchers /\ pc[E.t] = "wait" /\ snap[E.t] = Total /\ wait(E.t))
             \/ (E.e = "rel" /\ E.t \in Updaters /\ pc[E.t] = "ntf2" /\ toset = {} /\ ntf2(E.t))    \* loop exit

TAcq == /\ More /\ E.e = "acq" /\ Consume /\ pend' = {}
        /\ \/ (E.t \in Watchers /\ reg1(E.t))
           \/ (E.t \in Updaters /\ ntf1(E.t))
TRel == /\ More /\ E.e = "rel" /\ Consume /\ pend' = {}
        /\ \/ (E.t \in Watchers /\ reg2(E.t))
           \/ (E.t \in Updaters /\ toset = {} /\ ntf3(E.t))   \* every registered event was set before the release
TSnap == /\ More /\ E.e = "snap" /\ Consume /\ UNCHANGED pend
         /\ snp(E.w) /\ snap'[E.w] = E.v
TChg == /\ More /\ E.e = "chg" /\ Consume /\ UNCHANGED pend
        /\ chg(E.u) /\ version' = E.v
TSet == /\ More /\ E.e = "set" /\ Consume /\ pend' = pend \cup {E.w}
        /\ E.w \in toset /\ (\E u \in Updaters : pc[u] = "ntf2" /\ ntf2(u))
        /\ toset' = toset \ {E.w}
TWoke == /\ More /\ E.e = "woke" /\ Consume /\ UNCHANGED pend
         /\ isset[E.w] /\ wait(E.w)

TNext == Silent \/ TAcq \/ TRel \/ TSnap \/ TChg \/ TSet \/ TWoke
TSpec == TInit /\ [][TNext]_tvars
Accept == (l = Len(Ev) + 1) => PrintT(<<"ACCEPT", Traces[tid].id>>)
================================================================================
