---------------------------- MODULE AdbFraming ----------------------------
(* C13: ADB message framing over a chunk transport
   (openhtf.plugs.usb.adb_message.{AdbMessage, AdbTransportAdapter}).

   Part 1 (table): a frame is a header chunk [cmd, a0, a1, len, sum, magic]
   followed by a payload chunk.  Corruptions of a valid frame and what the
   reader must do with them.

   Part 2 (protocol, PlusCal-style hand translation): two writers and two
   readers share one adapter.  write_message = lock; append header; append
   payload (also when the timeout expired in between); unlock.  read_message
   = lock; take header; take payload; unlock.  Wire chunks are tagged with the
   message they belong to so that interleaving is visible. *)
EXTENDS Integers, Sequences, FiniteSets, TLC

----------------------------------------------------------------------
(* Part 1 *)
Commands == {"SYNC", "CNXN", "AUTH", "OPEN", "OKAY", "CLSE", "WRTE"}
Corruptions == {"none", "len+1", "len-1", "sum+1", "sum-1", "cmd-unknown", "magic-wrong",
                "header-short", "header-empty", "payload-short", "payload-other"}

(* "A received frame whose payload length or checksum disagrees with its
   header, whose command is unknown, or whose header is short or empty is
   rejected with an ADB integrity/protocol error and never delivered" *)
Verdict(c, paylen) ==
  CASE c = "none" -> "deliver"
    [] c = "magic-wrong" -> "deliver"              \* the statement does not require the magic to be checked
    [] c \in {"len+1", "len-1", "sum+1", "sum-1"} -> "reject"
    [] c \in {"payload-short", "payload-other"} -> IF paylen = 0 THEN "deliver" ELSE "reject"
    [] c \in {"cmd-unknown", "header-short", "header-empty"} -> "reject"

Table == {[cmd |-> cmd, c |-> c, paylen |-> n, verdict |-> Verdict(c, n)] :
          cmd \in Commands, c \in Corruptions, n \in 0..3}
RejectNeverDelivers == \A r \in Table : (r.c \notin {"none", "magic-wrong"} /\ r.paylen > 0) => r.verdict = "reject"

----------------------------------------------------------------------
(* Part 2 *)
CONSTANTS Writers, Readers, UseLocks
VARIABLES wire,     \* sequence of <<kind, owner>>: kind in {"hdr","pay"}
          wlock, rlock,
          wpc,      \* writer program counters: "idle" "locked" "hdr_sent" "done"
          rpc,      \* reader pcs: "idle" "locked" "hdr_read" "done"
          got,      \* reader -> <<header owner, payload owner>>
          pos       \* number of chunks consumed from the wire
pvars == <<wire, wlock, rlock, wpc, rpc, got, pos>>

PInit == /\ wire = <<>> /\ wlock = "free" /\ rlock = "free"
         /\ wpc = [w \in Writers |-> "idle"] /\ rpc = [r \in Readers |-> "idle"]
         /\ got = [r \in Readers |-> <<"", "">>] /\ pos = 0

WLock(w) == /\ wpc[w] = "idle" /\ (UseLocks => wlock = "free")
            /\ wlock' = IF UseLocks THEN w ELSE wlock
            /\ wpc' = [wpc EXCEPT ![w] = "locked"] /\ UNCHANGED <<wire, rlock, rpc, got, pos>>
WHeader(w) == /\ wpc[w] = "locked" /\ wire' = Append(wire, <<"hdr", w>>)
              /\ wpc' = [wpc EXCEPT ![w] = "hdr_sent"] /\ UNCHANGED <<wlock, rlock, rpc, got, pos>>
\* "once a header has been sent its payload is sent even if the timeout has expired in between"
WPayload(w) == /\ wpc[w] = "hdr_sent" /\ wire' = Append(wire, <<"pay", w>>)
               /\ wpc' = [wpc EXCEPT ![w] = "done"]
               /\ wlock' = IF UseLocks THEN "free" ELSE wlock
               /\ UNCHANGED <<rlock, rpc, got, pos>>

RLock(r) == /\ rpc[r] = "idle" /\ (UseLocks => rlock = "free") /\ pos < Len(wire)
            /\ rlock' = IF UseLocks THEN r ELSE rlock
            /\ rpc' = [rpc EXCEPT ![r] = "locked"] /\ UNCHANGED <<wire, wlock, wpc, got, pos>>
RHeader(r) == /\ rpc[r] = "locked" /\ pos < Len(wire)
              /\ got' = [got EXCEPT ![r][1] = wire[pos + 1][2] \o ":" \o wire[pos + 1][1]]
              /\ pos' = pos + 1
              /\ rpc' = [rpc EXCEPT ![r] = "hdr_read"] /\ UNCHANGED <<wire, wlock, rlock, wpc>>
RPayload(r) == /\ rpc[r] = "hdr_read" /\ pos < Len(wire)
               /\ got' = [got EXCEPT ![r][2] = wire[pos + 1][2] \o ":" \o wire[pos + 1][1]]
               /\ pos' = pos + 1
               /\ rpc' = [rpc EXCEPT ![r] = "done"]
               /\ rlock' = IF UseLocks THEN "free" ELSE rlock
               /\ UNCHANGED <<wire, wlock, wpc>>

PNext == \/ \E w \in Writers : WLock(w) \/ WHeader(w) \/ WPayload(w)
         \/ \E r \in Readers : RLock(r) \/ RHeader(r) \/ RPayload(r)
PSpec == PInit /\ [][PNext]_pvars

(* "header and payload of concurrent writers (and of concurrent readers) never interleave" *)
NoInterleaveOnWire == \A i \in 1..Len(wire) :
   (wire[i][1] = "hdr" /\ i < Len(wire)) => (wire[i + 1][1] = "pay" /\ wire[i + 1][2] = wire[i][2])
PayloadFollowsHeader == \A i \in 1..Len(wire) : wire[i][1] = "pay" => (i > 1 /\ wire[i - 1] = <<"hdr", wire[i][2]>>)
WholeFramePerReader == \A r \in Readers : rpc[r] = "done" =>
   \E w \in Writers : got[r] = <<w \o ":hdr", w \o ":pay">>

EmitTable == PrintT(<<"TABLE", Table>>)
======================================================================
