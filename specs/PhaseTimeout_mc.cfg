CONSTANTS
  Ts = {0, 1, 4, 6, 7, 8, 14}
  Ds = {0, 1, 2, 3, 5, 6, 7, 9, 10, 12, 13, 15, 20, 999}
  Ls = {0, 3}
  Poll = 6
  Inf = 999
  Results = {"C", "F", "E", "S"}
SPECIFICATION Spec
INVARIANT NoFalseTimeout
INVARIANT TimeoutWhenOverdue
INVARIANT BoundedDelay
INVARIANT Emit
CHECK_DEADLOCK FALSE
