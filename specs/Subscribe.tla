---------------------------- MODULE Subscribe ----------------------------
(* C18: the snapshot + event protocol of util.SubscribableStateMixin
   (TestState, FrontendAwareBasePlug / UserInput).

   Watcher (asdict_with_event, then wait on the event, repeatedly):
     reg   : with self._lock: self._update_events.add(event)    [fresh event]
     snap  : state = self._asdict()                             [outside the lock]
     wait  : event.wait()
   Updater (change the state, then notify_update):
     chg   : the state changes
     ntf   : with self._lock: set every registered event (one by one, a watcher
             may wake as soon as its own event is set); clear the set

   SnapFirst = TRUE models the classic mistake (snapshot before registering)
   and is used only to show that the properties are sensitive to it. *)
EXTENDS Naturals, FiniteSets, TLC

CONSTANTS Watchers, Updaters, Changes, SnapFirst

(* --algorithm Subscribe
variables lock = "free",
          registered = {},                      \* watchers whose current event is in the weak set
          isset = [w \in Watchers |-> FALSE],   \* flag of w's current event
          version = 0,                          \* the observable state
          snap = [w \in Watchers |-> 0],
          owed = [w \in Watchers |-> FALSE],    \* ghost: a notify completed after w's snapshot
          haveSnap = [w \in Watchers |-> FALSE],
          toset = {};                           \* events the running notify still has to set

define
  Total == Cardinality(Updaters) * Changes
  AllNotified == \A u \in Updaters : pc[u] = "Done"
end define;

fair process W \in Watchers
begin
wloop:  while snap[self] < Total do
          haveSnap[self] := FALSE || owed[self] := FALSE;
          if SnapFirst then
sf:         snap[self] := version; haveSnap[self] := TRUE;
          end if;
reg1:     await lock = "free"; lock := self;
reg2:     registered := registered \cup {self}; isset[self] := FALSE; lock := "free";
snp:      if ~SnapFirst then
            snap[self] := version; haveSnap[self] := TRUE;
          end if;
wait:     await isset[self] \/ snap[self] = Total;
        end while;
end process;

fair process U \in Updaters
variables k = 0;
begin
uloop:  while k < Changes do
chg:      version := version + 1; k := k + 1;
ntf1:     await lock = "free"; lock := self; toset := registered;
ntf2:     while toset # {} do               \* for event in self._update_events: event.set()
            with w \in toset do
              isset[w] := TRUE; toset := toset \ {w};
            end with;
          end while;
ntf3:     owed := [w \in Watchers |-> IF haveSnap[w] /\ pc[w] \in {"snp", "wait", "reg1", "reg2"} THEN TRUE ELSE owed[w]];
          registered := {};                 \* self._update_events.clear(); release the lock
          lock := "free";
        end while;
end process;
end algorithm; *)
\* BEGIN TRANSLATION
VARIABLES pc, lock, registered, isset, version, snap, owed, haveSnap, toset

(* define statement *)
Total == Cardinality(Updaters) * Changes
AllNotified == \A u \in Updaters : pc[u] = "Done"

VARIABLE k

vars == << pc, lock, registered, isset, version, snap, owed, haveSnap, toset, 
           k >>

ProcSet == (Watchers) \cup (Updaters)

Init == (* Global variables *)
        /\ lock = "free"
        /\ registered = {}
        /\ isset = [w \in Watchers |-> FALSE]
        /\ version = 0
        /\ snap = [w \in Watchers |-> 0]
        /\ owed = [w \in Watchers |-> FALSE]
        /\ haveSnap = [w \in Watchers |-> FALSE]
        /\ toset = {}
        (* Process U *)
        /\ k = [self \in Updaters |-> 0]
        /\ pc = [self \in ProcSet |-> CASE self \in Watchers -> "wloop"
                                        [] self \in Updaters -> "uloop"]

wloop(self) == /\ pc[self] = "wloop"
               /\ IF snap[self] < Total
                     THEN /\ /\ haveSnap' = [haveSnap EXCEPT ![self] = FALSE]
                             /\ owed' = [owed EXCEPT ![self] = FALSE]
                          /\ IF SnapFirst
                                THEN /\ pc' = [pc EXCEPT ![self] = "sf"]
                                ELSE /\ pc' = [pc EXCEPT ![self] = "reg1"]
                     ELSE /\ pc' = [pc EXCEPT ![self] = "Done"]
                          /\ UNCHANGED << owed, haveSnap >>
               /\ UNCHANGED << lock, registered, isset, version, snap, toset, 
                               k >>

reg1(self) == /\ pc[self] = "reg1"
              /\ lock = "free"
              /\ lock' = self
              /\ pc' = [pc EXCEPT ![self] = "reg2"]
              /\ UNCHANGED << registered, isset, version, snap, owed, haveSnap, 
                              toset, k >>

reg2(self) == /\ pc[self] = "reg2"
              /\ registered' = (registered \cup {self})
              /\ isset' = [isset EXCEPT ![self] = FALSE]
              /\ lock' = "free"
              /\ pc' = [pc EXCEPT ![self] = "snp"]
              /\ UNCHANGED << version, snap, owed, haveSnap, toset, k >>

snp(self) == /\ pc[self] = "snp"
             /\ IF ~SnapFirst
                   THEN /\ snap' = [snap EXCEPT ![self] = version]
                        /\ haveSnap' = [haveSnap EXCEPT ![self] = TRUE]
                   ELSE /\ TRUE
                        /\ UNCHANGED << snap, haveSnap >>
             /\ pc' = [pc EXCEPT ![self] = "wait"]
             /\ UNCHANGED << lock, registered, isset, version, owed, toset, k >>

wait(self) == /\ pc[self] = "wait"
              /\ isset[self] \/ snap[self] = Total
              /\ pc' = [pc EXCEPT ![self] = "wloop"]
              /\ UNCHANGED << lock, registered, isset, version, snap, owed, 
                              haveSnap, toset, k >>

sf(self) == /\ pc[self] = "sf"
            /\ snap' = [snap EXCEPT ![self] = version]
            /\ haveSnap' = [haveSnap EXCEPT ![self] = TRUE]
            /\ pc' = [pc EXCEPT ![self] = "reg1"]
            /\ UNCHANGED << lock, registered, isset, version, owed, toset, k >>

W(self) == wloop(self) \/ reg1(self) \/ reg2(self) \/ snp(self)
              \/ wait(self) \/ sf(self)

uloop(self) == /\ pc[self] = "uloop"
               /\ IF k[self] < Changes
                     THEN /\ pc' = [pc EXCEPT ![self] = "chg"]
                     ELSE /\ pc' = [pc EXCEPT ![self] = "Done"]
               /\ UNCHANGED << lock, registered, isset, version, snap, owed, 
                               haveSnap, toset, k >>

chg(self) == /\ pc[self] = "chg"
             /\ version' = version + 1
             /\ k' = [k EXCEPT ![self] = k[self] + 1]
             /\ pc' = [pc EXCEPT ![self] = "ntf1"]
             /\ UNCHANGED << lock, registered, isset, snap, owed, haveSnap, 
                             toset >>

ntf1(self) == /\ pc[self] = "ntf1"
              /\ lock = "free"
              /\ lock' = self
              /\ toset' = registered
              /\ pc' = [pc EXCEPT ![self] = "ntf2"]
              /\ UNCHANGED << registered, isset, version, snap, owed, haveSnap, 
                              k >>

ntf2(self) == /\ pc[self] = "ntf2"
              /\ IF toset # {}
                    THEN /\ \E w \in toset:
                              /\ isset' = [isset EXCEPT ![w] = TRUE]
                              /\ toset' = toset \ {w}
                         /\ pc' = [pc EXCEPT ![self] = "ntf2"]
                    ELSE /\ pc' = [pc EXCEPT ![self] = "ntf3"]
                         /\ UNCHANGED << isset, toset >>
              /\ UNCHANGED << lock, registered, version, snap, owed, haveSnap, 
                              k >>

ntf3(self) == /\ pc[self] = "ntf3"
              /\ owed' = [w \in Watchers |-> IF haveSnap[w] /\ pc[w] \in {"snp", "wait", "reg1", "reg2"} THEN TRUE ELSE owed[w]]
              /\ registered' = {}
              /\ lock' = "free"
              /\ pc' = [pc EXCEPT ![self] = "uloop"]
              /\ UNCHANGED << isset, version, snap, haveSnap, toset, k >>

U(self) == uloop(self) \/ chg(self) \/ ntf1(self) \/ ntf2(self)
              \/ ntf3(self)

(* Allow infinite stuttering to prevent deadlock on termination. *)
Terminating == /\ \A self \in ProcSet: pc[self] = "Done"
               /\ UNCHANGED vars

Next == (\E self \in Watchers: W(self))
           \/ (\E self \in Updaters: U(self))
           \/ Terminating

Spec == /\ Init /\ [][Next]_vars
        /\ \A self \in Watchers : WF_vars(W(self))
        /\ \A self \in Updaters : WF_vars(U(self))

Termination == <>(\A self \in ProcSet: pc[self] = "Done")

\* END TRANSLATION 

(* "if an update notification is issued after the state snapshot was taken the
   event becomes set" *)
NoLostUpdate == \A w \in Watchers : (owed[w] /\ pc[w] \in {"snp", "wait"}) => isset[w]
(* "it then stays set for that watcher" *)
StaysSet == [][\A w \in Watchers : (isset[w] /\ pc[w] = "wait" /\ pc'[w] = "wait") => isset'[w]]_vars
(* "one notification wakes every watcher registered before it" *)
WakesAll == [][\A u \in Updaters : (pc[u] = "ntf3" /\ pc'[u] # "ntf3") =>
                 \A w \in registered : isset[w]]_vars
(* "a watcher looping on snapshot-then-wait always observes the final ... state";
   "no watcher is left blocked forever" = Termination under weak fairness *)
FinalObserved == \A w \in Watchers : pc[w] = "Done" => snap[w] = Total
====
