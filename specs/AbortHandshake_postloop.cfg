CONSTANTS
  NSetup = 1
  NMain = 1
  NTd = 2
  NAborters = 2
  PostLoopAbortCheck = TRUE
  ResetInAbort = FALSE
SPECIFICATION Spec
INVARIANT AtMostOneBody
INVARIANT NoStartAfterAbortReturned
INVARIANT NoBodyAfterFinalize
INVARIANT AbortedWins
INVARIANT NotAbortedWithoutAbort
INVARIANT TeardownAllRun
INVARIANT EnteredMeansTeardown
INVARIANT SetupFailedNothingRuns
INVARIANT NoDoubleStart
PROPERTY ExecReturns
PROPERTY AbortsReturn
CHECK_DEADLOCK FALSE
