---- MODULE ReadUntil ----
(* Design-level model of AdbStreamTransport._read_messages_until_true for two
   threads sharing one stream (a reader R waiting for data, a writer W waiting
   for its OKAY).  FIXED = FALSE is the code as pinned (notify, then release the
   reader lock in `finally`); FIXED = TRUE releases first and then notifies.

   TIMEOUTS = TRUE: the writer's acknowledgement never comes and the reader's
   data arrives late (process Dev).  The writer may then give up while it holds
   the reader role (its read of the transport times out): it must still release
   the lock AND notify, or the reader - already waiting on the condition - is
   never woken although nobody reads any more (NOTIFYEXIT = FALSE: the
   notification only after a handled message; TLC finds the lost wake-up). *)
EXTENDS Naturals, Sequences, FiniteSets, TLC
CONSTANT FIXED, FIXALL, TIMEOUTS, NOTIFYEXIT
Threads == {"R", "W"}

(* --algorithm ReadUntil
variables readerLock = "free", condLock = "free", waiting = {},
          inbox = IF TIMEOUTS THEN <<>> ELSE <<"R", "W">>,   \* device sends R's data, then W's OKAY
          got = [t \in Threads |-> FALSE];

define
  Done(t) == pc[t] = "Done"
end define;

fair process T \in Threads
begin
loop:   while ~got[self] do
acqc:     await condLock = "free"; condLock := self;        \* _message_received.acquire()
try:      if readerLock = "free" then                        \* _reader_lock.acquire(False)
            readerLock := self; condLock := "free";
chk:        if got[self] then                                \* predicate re-check
              readerLock := "free";
              if FIXALL then
ntfE1:          await condLock = "free"; condLock := self;
ntfE2:          waiting := {}; condLock := "free";
              end if;
gol:          goto loop;
            end if;
rd:         either
              await inbox # <<>>;                            \* read_for_stream (blocks)
              got[Head(inbox)] := TRUE || inbox := Tail(inbox);  \* _handle_message
            or
              await TIMEOUTS /\ self = "W" /\ inbox = <<>>;   \* the transport read times out: the exception
              readerLock := "free";                          \* leaves through `finally`
              got[self] := TRUE;                             \* (the writer is done: it raises to its caller)
              if NOTIFYEXIT then
ntfX1:          await condLock = "free"; condLock := self;
ntfX2:          waiting := {}; condLock := "free";
              end if;
gox:          goto loop;
            end either;
hm:         if FIXED then
relF:         readerLock := "free";
ntfF1:        await condLock = "free"; condLock := self;
ntfF2:        waiting := {}; condLock := "free";
            else
ntf1:         await condLock = "free"; condLock := self;    \* with cond: notify_all()
ntf2:         waiting := {}; condLock := "free";
rel:          readerLock := "free";                          \* finally: release
            end if;
          else
w1:         waiting := waiting \cup {self}; condLock := "free";  \* cond.wait(): release+sleep
w2:         await self \notin waiting /\ condLock = "free"; condLock := self; \* woken, reacquire
w3:         condLock := "free";                              \* finally: release
          end if;
        end while;
end process;

fair process Dev = "dev"
begin
d0:   if TIMEOUTS then inbox := Append(inbox, "R"); end if;     \* at any time: also after the writer gave up
end process;
end algorithm; *)
\* BEGIN TRANSLATION
VARIABLES pc, readerLock, condLock, waiting, inbox, got

(* define statement *)
Done(t) == pc[t] = "Done"


vars == << pc, readerLock, condLock, waiting, inbox, got >>

ProcSet == (Threads) \cup {"dev"}

Init == (* Global variables *)
        /\ readerLock = "free"
        /\ condLock = "free"
        /\ waiting = {}
        /\ inbox = IF TIMEOUTS THEN <<>> ELSE <<"R", "W">>
        /\ got = [t \in Threads |-> FALSE]
        /\ pc = [self \in ProcSet |-> CASE self \in Threads -> "loop"
                                        [] self = "dev" -> "d0"]

loop(self) == /\ pc[self] = "loop"
              /\ IF ~got[self]
                    THEN /\ pc' = [pc EXCEPT ![self] = "acqc"]
                    ELSE /\ pc' = [pc EXCEPT ![self] = "Done"]
              /\ UNCHANGED << readerLock, condLock, waiting, inbox, got >>

acqc(self) == /\ pc[self] = "acqc"
              /\ condLock = "free"
              /\ condLock' = self
              /\ pc' = [pc EXCEPT ![self] = "try"]
              /\ UNCHANGED << readerLock, waiting, inbox, got >>

try(self) == /\ pc[self] = "try"
             /\ IF readerLock = "free"
                   THEN /\ readerLock' = self
                        /\ condLock' = "free"
                        /\ pc' = [pc EXCEPT ![self] = "chk"]
                   ELSE /\ pc' = [pc EXCEPT ![self] = "w1"]
                        /\ UNCHANGED << readerLock, condLock >>
             /\ UNCHANGED << waiting, inbox, got >>

chk(self) == /\ pc[self] = "chk"
             /\ IF got[self]
                   THEN /\ readerLock' = "free"
                        /\ IF FIXALL
                              THEN /\ pc' = [pc EXCEPT ![self] = "ntfE1"]
                              ELSE /\ pc' = [pc EXCEPT ![self] = "gol"]
                   ELSE /\ pc' = [pc EXCEPT ![self] = "rd"]
                        /\ UNCHANGED readerLock
             /\ UNCHANGED << condLock, waiting, inbox, got >>

gol(self) == /\ pc[self] = "gol"
             /\ pc' = [pc EXCEPT ![self] = "loop"]
             /\ UNCHANGED << readerLock, condLock, waiting, inbox, got >>

ntfE1(self) == /\ pc[self] = "ntfE1"
               /\ condLock = "free"
               /\ condLock' = self
               /\ pc' = [pc EXCEPT ![self] = "ntfE2"]
               /\ UNCHANGED << readerLock, waiting, inbox, got >>

ntfE2(self) == /\ pc[self] = "ntfE2"
               /\ waiting' = {}
               /\ condLock' = "free"
               /\ pc' = [pc EXCEPT ![self] = "gol"]
               /\ UNCHANGED << readerLock, inbox, got >>

rd(self) == /\ pc[self] = "rd"
            /\ \/ /\ inbox # <<>>
                  /\ /\ got' = [got EXCEPT ![Head(inbox)] = TRUE]
                     /\ inbox' = Tail(inbox)
                  /\ pc' = [pc EXCEPT ![self] = "hm"]
                  /\ UNCHANGED readerLock
               \/ /\ TIMEOUTS /\ self = "W" /\ inbox = <<>>
                  /\ readerLock' = "free"
                  /\ got' = [got EXCEPT ![self] = TRUE]
                  /\ IF NOTIFYEXIT
                        THEN /\ pc' = [pc EXCEPT ![self] = "ntfX1"]
                        ELSE /\ pc' = [pc EXCEPT ![self] = "gox"]
                  /\ inbox' = inbox
            /\ UNCHANGED << condLock, waiting >>

ntfX1(self) == /\ pc[self] = "ntfX1"
               /\ condLock = "free"
               /\ condLock' = self
               /\ pc' = [pc EXCEPT ![self] = "ntfX2"]
               /\ UNCHANGED << readerLock, waiting, inbox, got >>

ntfX2(self) == /\ pc[self] = "ntfX2"
               /\ waiting' = {}
               /\ condLock' = "free"
               /\ pc' = [pc EXCEPT ![self] = "gox"]
               /\ UNCHANGED << readerLock, inbox, got >>

gox(self) == /\ pc[self] = "gox"
             /\ pc' = [pc EXCEPT ![self] = "loop"]
             /\ UNCHANGED << readerLock, condLock, waiting, inbox, got >>

hm(self) == /\ pc[self] = "hm"
            /\ IF FIXED
                  THEN /\ pc' = [pc EXCEPT ![self] = "relF"]
                  ELSE /\ pc' = [pc EXCEPT ![self] = "ntf1"]
            /\ UNCHANGED << readerLock, condLock, waiting, inbox, got >>

relF(self) == /\ pc[self] = "relF"
              /\ readerLock' = "free"
              /\ pc' = [pc EXCEPT ![self] = "ntfF1"]
              /\ UNCHANGED << condLock, waiting, inbox, got >>

ntfF1(self) == /\ pc[self] = "ntfF1"
               /\ condLock = "free"
               /\ condLock' = self
               /\ pc' = [pc EXCEPT ![self] = "ntfF2"]
               /\ UNCHANGED << readerLock, waiting, inbox, got >>

ntfF2(self) == /\ pc[self] = "ntfF2"
               /\ waiting' = {}
               /\ condLock' = "free"
               /\ pc' = [pc EXCEPT ![self] = "loop"]
               /\ UNCHANGED << readerLock, inbox, got >>

ntf1(self) == /\ pc[self] = "ntf1"
              /\ condLock = "free"
              /\ condLock' = self
              /\ pc' = [pc EXCEPT ![self] = "ntf2"]
              /\ UNCHANGED << readerLock, waiting, inbox, got >>

ntf2(self) == /\ pc[self] = "ntf2"
              /\ waiting' = {}
              /\ condLock' = "free"
              /\ pc' = [pc EXCEPT ![self] = "rel"]
              /\ UNCHANGED << readerLock, inbox, got >>

rel(self) == /\ pc[self] = "rel"
             /\ readerLock' = "free"
             /\ pc' = [pc EXCEPT ![self] = "loop"]
             /\ UNCHANGED << condLock, waiting, inbox, got >>

w1(self) == /\ pc[self] = "w1"
            /\ waiting' = (waiting \cup {self})
            /\ condLock' = "free"
            /\ pc' = [pc EXCEPT ![self] = "w2"]
            /\ UNCHANGED << readerLock, inbox, got >>

w2(self) == /\ pc[self] = "w2"
            /\ self \notin waiting /\ condLock = "free"
            /\ condLock' = self
            /\ pc' = [pc EXCEPT ![self] = "w3"]
            /\ UNCHANGED << readerLock, waiting, inbox, got >>

w3(self) == /\ pc[self] = "w3"
            /\ condLock' = "free"
            /\ pc' = [pc EXCEPT ![self] = "loop"]
            /\ UNCHANGED << readerLock, waiting, inbox, got >>

T(self) == loop(self) \/ acqc(self) \/ try(self) \/ chk(self) \/ gol(self)
              \/ ntfE1(self) \/ ntfE2(self) \/ rd(self) \/ ntfX1(self)
              \/ ntfX2(self) \/ gox(self) \/ hm(self) \/ relF(self)
              \/ ntfF1(self) \/ ntfF2(self) \/ ntf1(self) \/ ntf2(self)
              \/ rel(self) \/ w1(self) \/ w2(self) \/ w3(self)

d0 == /\ pc["dev"] = "d0"
      /\ IF TIMEOUTS
            THEN /\ inbox' = Append(inbox, "R")
            ELSE /\ TRUE
                 /\ inbox' = inbox
      /\ pc' = [pc EXCEPT !["dev"] = "Done"]
      /\ UNCHANGED << readerLock, condLock, waiting, got >>

Dev == d0

(* Allow infinite stuttering to prevent deadlock on termination. *)
Terminating == /\ \A self \in ProcSet: pc[self] = "Done"
               /\ UNCHANGED vars

Next == Dev
           \/ (\E self \in Threads: T(self))
           \/ Terminating

Spec == /\ Init /\ [][Next]_vars
        /\ \A self \in Threads : WF_vars(T(self))
        /\ WF_vars(Dev)

Termination == <>(\A self \in ProcSet: pc[self] = "Done")

\* END TRANSLATION 
====
