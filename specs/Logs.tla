---------------------------- MODULE Logs ----------------------------
(* C19: per-run capture of log records (openhtf.util.logs: RecordHandler,
   TestUidFilter, initialize_record_handler / remove_record_handler,
   get_record_logger_for; TestState owns one handler per run).

   Logger names:  <<"fw", x>>            "openhtf.<module>"  (framework message)
                  <<"rec", u>>            "openhtf.test_record.<u>"
                  <<"phase", u, p>>       "openhtf.test_record.<u>.phase.<p>"
                  <<"plug", u, p>>        "openhtf.test_record.<u>.plug.<p>"
                  <<"bare">>              "openhtf.test_record"   (no uid: behaves as framework)
   Uids may be prefixes of one another.

   Part 1 (sequential histories): Start(u) / End(u) / Log(name).
   Part 2 (handler list protocol): a logging call walks the handler list of the
   "openhtf" logger one handler per step while another run ends and removes its
   handler.  InPlace = TRUE removes from the list object being iterated (the
   walk then skips the next handler); InPlace = FALSE installs a new list. *)
EXTENDS Naturals, Sequences, FiniteSets, TLC

CONSTANTS Uids, MaxOps, InPlace

Names == {<<"fw", "core">>, <<"bare">>} \cup {<<"rec", u>> : u \in Uids}
         \cup {<<"phase", u, "p">> : u \in Uids} \cup {<<"plug", u, "q">> : u \in Uids}

\* which run a name belongs to ("" = every live run)
Owner(n) == IF n[1] \in {"fw", "bare"} THEN "" ELSE n[2]
Passes(h, n) == Owner(n) = "" \/ Owner(n) = h

VARIABLES handlers,  \* sequence of uids: the handler list
          live,      \* runs started and not ended
          captured,  \* [Uids -> Seq(message ids)]
          nmsg,      \* number of messages emitted so far
          hist
vars == <<handlers, live, captured, nmsg, hist>>

Init == /\ handlers = <<>> /\ live = {} /\ captured = [u \in Uids |-> <<>>] /\ nmsg = 0 /\ hist = <<>>

Start(u) == /\ u \notin live /\ Len(hist) < MaxOps
            /\ handlers' = Append(handlers, u) /\ live' = live \cup {u}
            /\ captured' = [captured EXCEPT ![u] = <<>>]       \* a new run has a fresh record
            /\ hist' = Append(hist, <<"start", u>>) /\ UNCHANGED nmsg
Remove(s, u) == SelectSeq(s, LAMBDA x : x # u)
End(u) == /\ u \in live /\ Len(hist) < MaxOps
          /\ handlers' = Remove(handlers, u) /\ live' = live \ {u}
          /\ hist' = Append(hist, <<"end", u>>) /\ UNCHANGED <<captured, nmsg>>
(* "appended exactly once, in emission order, to that run's log_records ...
   while messages logged through another test's record loggers never appear" *)
Log(n) == /\ Len(hist) < MaxOps
          /\ nmsg' = nmsg + 1
          /\ captured' = [u \in Uids |-> IF u \in live /\ Passes(u, n)
                                          THEN Append(captured[u], nmsg + 1) ELSE captured[u]]
          /\ hist' = Append(hist, <<"log", n, nmsg + 1>>) /\ UNCHANGED <<handlers, live>>
Next == (\E u \in Uids : Start(u) \/ End(u)) \/ (\E n \in Names : Log(n))
Spec == Init /\ [][Next]_vars

HandlersAreLiveRuns == {handlers[i] : i \in 1..Len(handlers)} = live /\ Len(handlers) = Cardinality(live)
(* "once the run has ended no handler of it remains ... nor accumulates handlers" *)
NoHandlerAfterEnd == \A u \in Uids : u \notin live => \A i \in 1..Len(handlers) : handlers[i] # u
InOrderOnce == \A u \in Uids : \A i, j \in 1..Len(captured[u]) : i < j => captured[u][i] < captured[u][j]
Emit == (Len(hist) = MaxOps) => PrintT(<<"HIST", hist, captured>>)

(* "MAC addresses in captured messages are redacted beyond the three-byte vendor
   prefix": for every way a MAC can get into a message the record is still
   delivered, keeps the vendor prefix and shows nothing of the device part *)
Shapes == {"literal-in-msg", "str-arg", "upper-case", "object-arg", "tuple-arg", "exception-arg",
           "mapping-arg", "followed-by-punctuation", "non-str-msg", "two-macs", "no-mac"}
RedactionTable == {[shape |-> s, delivered |-> TRUE, leaks |-> FALSE, prefix_kept |-> (s # "no-mac")] : s \in Shapes}
EmitTable == (hist = <<>>) => PrintT(<<"TABLE", RedactionTable>>)

======================================================================
