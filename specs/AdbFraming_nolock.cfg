CONSTANTS
  Writers = {"w1", "w2"}
  Readers = {"r1", "r2"}
  UseLocks = FALSE
INIT PInit
NEXT PNext
INVARIANT NoInterleaveOnWire
INVARIANT PayloadFollowsHeader
INVARIANT WholeFramePerReader
INVARIANT RejectNeverDelivers
INVARIANT EmitTable
CHECK_DEADLOCK FALSE
