---------------------------- MODULE AdbMux ----------------------------
(* The ADB stream multiplexer seen from ONE host thread at a time
   (openhtf.plugs.usb.adb_protocol.{AdbConnection, AdbStreamTransport,
   AdbStream}).  Serves C14 (per-stream in-order exactly-once delivery, acks,
   flow control, chunking) and the open/close/id part of C15.  The reader
   election between threads of one stream is specified in ReadUntil.tla.

   The device is nondeterministic: between host operations it may put WRTE /
   OKAY / CLSE messages for any stream it knows, messages for unknown ids, or
   an illegal mid-session packet on the wire.  A host operation (open, read,
   write, close) is atomic here; inside it the host consumes wire messages in
   order, routing those for other streams into their queues (acknowledging
   every WRTE), exactly as read_for_stream/_handle_message_for_stream do.

   Device->host message: [cmd, a0 (device-side id), a1 (host-side id), d].
   Host->device log entry: <<cmd, local id, remote id, data>>. *)
EXTENDS Integers, Sequences, FiniteSets, TLC

CONSTANTS Limit,     \* STREAM_ID_LIMIT
          Probe,     \* how many candidate ids the allocator examines (64 in the code)
          MaxData,   \* device maxdata in symbols
          Sym,       \* payload symbols
          MaxStreams, MaxOps, MaxWire, MaxDev,
          DataSeqs,    \* payloads a host write may carry
          DevSeqs,     \* payloads a device WRTE may carry (sequences of symbols)
          ReadLens,    \* lengths a host read may ask for (0 = whatever is there)
          IllegalCmds  \* packet types that are illegal mid-session

VARIABLES wire,    \* device->host messages not yet consumed
          st,      \* sequence of stream records, indexed by handle
          sent,    \* host->device message log
          last,    \* _last_id_used
          devw,    \* per handle: data symbols the device has written so far (ghost)
          hostr,   \* per handle: data symbols returned to the host by reads (ghost)
          nops,
          hist     \* <<op, result>> per host operation / device action

vars == <<wire, st, sent, last, devw, hostr, nops, hist>>

Rid(h) == 100 + h
M(cmd, a0, a1, d) == [cmd |-> cmd, a0 |-> a0, a1 |-> a1, d |-> d]
S0 == [wire |-> wire, st |-> st, sent |-> sent, last |-> last]

Handles(S) == 1..Len(S.st)
InMapH(S, lid) == {h \in Handles(S) : S.st[h].lid = lid /\ S.st[h].inmap}
UsedIds(S) == {S.st[h].lid : h \in {x \in Handles(S) : S.st[x].inmap}}

(* close_stream_transport: "a close from either side is answered with exactly
   one CLSE and releases the id" *)
CloseTransport(S, h) ==
  IF ~S.st[h].inmap THEN S
  ELSE [S EXCEPT !.st[h].inmap = FALSE,
                 !.sent = IF S.st[h].rid # 0
                          THEN Append(@, <<"CLSE", S.st[h].lid, S.st[h].rid, "">>) ELSE @]

Ack(S, h) == [S EXCEPT !.sent = Append(@, <<"OKAY", S.st[h].lid, S.st[h].rid, "">>)]

(* one wire message processed on behalf of stream h: returns [S, ret] where
   ret is the message if it was for h, "none" if routed elsewhere/ignored,
   or "PROTO" for an illegal packet *)
Process(S, h, m) ==
  IF m.cmd \notin {"OKAY", "CLSE", "WRTE"} THEN [S |-> S, ret |-> "PROTO", m |-> m]
  ELSE IF m.a1 = S.st[h].lid /\ m.cmd = "WRTE" /\ S.st[h].rid = 0
  THEN [S |-> S, ret |-> "PROTO", m |-> m]        \* data for a stream that is not open yet (e.g. a stale
                                                 \* WRTE for a reused id): protocol error, not acknowledged
  ELSE IF m.a1 = S.st[h].lid
  THEN LET S1 == IF m.cmd = "WRTE" THEN Ack(S, h)
                 ELSE IF m.cmd = "CLSE" THEN CloseTransport(S, h) ELSE S
       IN [S |-> S1, ret |-> "mine", m |-> m]
  ELSE LET ds == InMapH(S, m.a1) IN
       IF ds = {} THEN [S |-> S, ret |-> "none", m |-> m]     \* unknown local id: ignored
       ELSE LET d == CHOOSE x \in ds : TRUE
                S1 == IF m.cmd = "CLSE" THEN CloseTransport(S, d) ELSE S
                S2 == IF m.cmd = "WRTE" THEN Ack(S1, d) ELSE S1
            IN [S |-> [S2 EXCEPT !.st[d].q = Append(@, m)], ret |-> "none", m |-> m]

(* read_for_stream: returns [S, ret, m]; ret in {"msg", "TIMEOUT", "CLOSED", "PROTO"} *)
RECURSIVE RFS(_, _)
RFS(S, h) ==
  IF S.st[h].q # <<>>
  THEN [S |-> [S EXCEPT !.st[h].q = Tail(@)], ret |-> "msg", m |-> Head(S.st[h].q)]
  ELSE IF ~S.st[h].inmap THEN [S |-> S, ret |-> "CLOSED", m |-> M("", 0, 0, "")]
  ELSE IF S.wire = <<>> THEN [S |-> S, ret |-> "TIMEOUT", m |-> M("", 0, 0, "")]
  ELSE LET m == Head(S.wire)
           p == Process([S EXCEPT !.wire = Tail(@)], h, m) IN
       IF p.ret = "PROTO" THEN [S |-> p.S, ret |-> "PROTO", m |-> m]
       ELSE IF p.ret = "mine" THEN [S |-> p.S, ret |-> "msg", m |-> m]
       ELSE RFS(p.S, h)

(* _handle_message: returns [S, err] *)
Handle(S, h, m, wrteOk) ==
  CASE m.cmd = "OKAY" ->
         LET S1 == IF S.st[h].rid = 0
                   THEN [S EXCEPT !.st[h].rid = m.a0, !.st[h].state = "open"] ELSE S IN
         IF ~S1.st[h].exp THEN [S |-> S1, err |-> "PROTO"]
         ELSE [S |-> [S1 EXCEPT !.st[h].exp = FALSE], err |-> ""]
    [] m.cmd = "CLSE" -> [S |-> [S EXCEPT !.st[h].state = "closed"], err |-> ""]
    [] m.cmd = "WRTE" ->
         IF ~wrteOk THEN [S |-> S, err |-> "PROTO"]
         ELSE [S |-> [S EXCEPT !.st[h].buf = @ \o m.d], err |-> ""]     \* m.d: sequence of symbols

(* _read_messages_until_true; pred p: 0 = the outstanding WRTE was acknowledged,
   k >= 1 = at least k symbols are buffered *)
Pred(S, h, p) == IF p = 0 THEN ~S.st[h].exp ELSE Len(S.st[h].buf) >= p
RECURSIVE Until(_, _, _)
Until(S, h, p) ==
  IF Pred(S, h, p) THEN [S |-> S, err |-> ""]
  ELSE LET r == RFS(S, h) IN
       IF r.ret # "msg" THEN [S |-> r.S, err |-> r.ret]
       ELSE LET x == Handle(r.S, h, r.m, TRUE) IN
            IF x.err # "" THEN x ELSE Until(x.S, h, p)

(* id allocation: "Open streams always have distinct non-zero local ids below the id limit" *)
Cands(l) == [i \in 1..(Limit - 1) |-> IF l + i - 1 < Limit THEN l + i - 1 ELSE l + i - Limit]
Alloc(S) ==
  LET l == (S.last % Limit) + 1
      n == IF Probe < Limit - 1 THEN Probe ELSE Limit - 1
      free == {i \in 1..n : Cands(l)[i] \notin UsedIds(S) /\ Cands(l)[i] >= 1 /\ Cands(l)[i] < Limit}
  IN IF free = {} THEN 0 ELSE Cands(l)[CHOOSE i \in free : \A j \in free : i <= j]

Commit(S, op, res) ==
  /\ wire' = S.wire /\ st' = S.st /\ sent' = S.sent /\ last' = S.last
  /\ nops' = nops + 1
  /\ hist' = Append(hist, <<op, res, SubSeq(S.sent, Len(sent) + 1, Len(S.sent))>>)

(* ASSUMPTION (device and id limit): when a local id is handed out again, no
   message the device addressed to the stream that had it before is still in
   flight, and the device sends nothing more to that earlier stream.  ADB
   cannot tell the two incarnations apart while the new one has no remote id
   yet; with the production limit 2^31 opens - each of which reads the wire -
   lie between the two.  Without it TLC finds histories (Limit = 3, five
   operations) in which a late WRTE/OKAY for the closed stream is taken for the
   new one. *)
NoStaleInFlight(lid) == \A i \in 1..Len(wire) : wire[i].a1 # lid
Current(h) == ~\E h2 \in (h + 1)..Len(st) : st[h2].lid = st[h].lid

\* api: open_stream() returned a stream object for this handle (the caller can use it)
NewStream(lid) == [lid |-> lid, rid |-> 0, state |-> "pending", inmap |-> TRUE, q |-> <<>>,
                   buf |-> <<>>, exp |-> TRUE, api |-> FALSE]

(* open_stream: "a stream becomes usable only after the device's OKAY (a CLSE
   reply means the service is unavailable and yields no stream)" *)
Open(reply) ==
  /\ nops < MaxOps /\ Len(st) < MaxStreams
  /\ NoStaleInFlight(Alloc(S0))
  /\ LET lid == Alloc(S0) IN
     IF lid = 0
     THEN \* the allocator has already advanced _last_id_used when it gives up
          /\ Commit([S0 EXCEPT !.last = (last % Limit) + 1], <<"open", reply>>, "AdbStreamUnavailableError")
          /\ UNCHANGED <<devw, hostr>>
     ELSE LET h == Len(st) + 1
              rmsg == IF reply = "OKAY" THEN <<M("OKAY", Rid(h), lid, "")>>
                      ELSE IF reply = "CLSE" THEN <<M("CLSE", 0, lid, "")>> ELSE <<>>
              S1 == [S0 EXCEPT !.st = Append(@, NewStream(lid)), !.last = lid,
                               !.sent = Append(@, <<"OPEN", lid, 0, "dest">>),
                               !.wire = @ \o rmsg]
              r == RFS(S1, h) IN
          /\ devw' = Append(devw, <<>>) /\ hostr' = Append(hostr, <<>>)
          /\ IF r.ret # "msg" THEN Commit(r.S, <<"open", reply>>, r.ret)
             ELSE LET x == Handle(r.S, h, r.m, FALSE) IN
                  IF x.err # "" THEN Commit(x.S, <<"open", reply>>, x.err)
                  ELSE IF x.S.st[h].state = "open"
                  THEN Commit([x.S EXCEPT !.st[h].api = TRUE], <<"open", reply>>, "stream")
                  ELSE Commit(x.S, <<"open", reply>>, "None")

(* stream.read(): "each stream's reader obtains exactly the bytes the device
   wrote to that stream, in order"; "reads drain buffered data and then report
   the stream closed" *)
\* read(n): n = 0 returns everything buffered (at least one symbol), n > 0 exactly
\* the first n symbols; what is left stays at the FRONT of the buffer
Read(h, n) ==
  /\ nops < MaxOps /\ h \in 1..Len(st) /\ st[h].api
  /\ LET u == Until(S0, h, IF n = 0 THEN 1 ELSE n) IN
     IF u.err # "" THEN Commit(u.S, <<"read", h, n>>, u.err) /\ UNCHANGED <<devw, hostr>>
     ELSE LET buf == u.S.st[h].buf
              k == IF n = 0 THEN Len(buf) ELSE n
              data == SubSeq(buf, 1, k) IN
          /\ Commit([u.S EXCEPT !.st[h].buf = SubSeq(buf, k + 1, Len(buf))], <<"read", h, n>>, <<"data", data>>)
          /\ hostr' = [hostr EXCEPT ![h] = @ \o data] /\ UNCHANGED devw

(* stream.write(data): chunks of at most maxdata; each WRTE waits for its OKAY *)
RECURSIVE WriteChunks(_, _, _, _)
WriteChunks(S, h, data, ack) ==
  IF data = <<>> THEN [S |-> S, err |-> ""]
  ELSE IF S.st[h].rid = 0 \/ S.st[h].state # "open" THEN [S |-> S, err |-> "CLOSED"]
  ELSE IF S.st[h].exp THEN [S |-> S, err |-> "PROTO"]
  ELSE LET n == IF Len(data) < MaxData THEN Len(data) ELSE MaxData
           chunk == SubSeq(data, 1, n)
           S1 == [S EXCEPT !.st[h].exp = TRUE,
                           !.sent = Append(@, <<"WRTE", S.st[h].lid, S.st[h].rid, chunk>>),
                           !.wire = IF ack THEN Append(@, M("OKAY", S.st[h].rid, S.st[h].lid, "")) ELSE @]
           u == Until(S1, h, 0) IN
       IF u.err # "" THEN u ELSE WriteChunks(u.S, h, SubSeq(data, n + 1, Len(data)), ack)

Write(h, data, ack) ==
  /\ nops < MaxOps /\ h \in 1..Len(st) /\ st[h].api
  /\ (ack => Current(h))          \* the device does not answer on an earlier stream whose id was handed out again
  /\ LET w == WriteChunks(S0, h, data, ack) IN
     Commit(w.S, <<"write", h, data, ack>>, IF w.err = "" THEN "ok" ELSE w.err)
  /\ UNCHANGED <<devw, hostr>>

Close(h) ==
  /\ nops < MaxOps /\ h \in 1..Len(st) /\ st[h].api
  /\ IF st[h].state = "closed" THEN Commit(S0, <<"close", h>>, "ok")
     ELSE Commit(CloseTransport([S0 EXCEPT !.st[h].state = "closed"], h), <<"close", h>>, "ok")
  /\ UNCHANGED <<devw, hostr>>

(* device actions *)
NDev == Cardinality({i \in 1..Len(hist) : hist[i][1][1] = "dev"})
DevSend(m, note) ==
  /\ Len(wire) < MaxWire /\ NDev < MaxDev /\ nops < MaxOps
  /\ wire' = Append(wire, m)
  /\ hist' = Append(hist, <<<<"dev", m.cmd, note, m.d>>, "", <<>>>>)
  /\ UNCHANGED <<st, sent, last, nops, hostr>>

DevWrte(h, d) == /\ h \in 1..Len(st) /\ st[h].rid # 0 /\ Current(h)
                 /\ DevSend(M("WRTE", st[h].rid, st[h].lid, d), h)
                 /\ devw' = [devw EXCEPT ![h] = @ \o d]
DevClse(h) == /\ h \in 1..Len(st) /\ st[h].rid # 0 /\ Current(h)
              /\ DevSend(M("CLSE", st[h].rid, st[h].lid, ""), h) /\ UNCHANGED devw
DevOkay(h) == /\ h \in 1..Len(st) /\ st[h].rid # 0 /\ Current(h)      \* unsolicited OKAY
              /\ DevSend(M("OKAY", st[h].rid, st[h].lid, ""), h) /\ UNCHANGED devw
DevUnknown == DevSend(M("WRTE", 999, Limit + 5, <<"a">>), 0) /\ UNCHANGED devw
DevIllegal(c) == DevSend(M(c, 0, 0, ""), 0) /\ UNCHANGED devw

Init == /\ wire = <<>> /\ st = <<>> /\ sent = <<>> /\ last = 0
        /\ devw = <<>> /\ hostr = <<>> /\ nops = 0 /\ hist = <<>>

Next == \/ \E r \in {"OKAY", "CLSE", "none"} : Open(r)
        \/ \E h \in 1..MaxStreams : Close(h)
        \/ \E h \in 1..MaxStreams, n \in ReadLens : Read(h, n)
        \/ \E h \in 1..MaxStreams, d \in DataSeqs, a \in BOOLEAN : Write(h, d, a)
        \/ \E h \in 1..MaxStreams, d \in DevSeqs : DevWrte(h, d)
        \/ \E h \in 1..MaxStreams : DevClse(h) \/ DevOkay(h)
        \/ DevUnknown
        \/ \E c \in IllegalCmds : DevIllegal(c)

Spec == Init /\ [][Next]_vars

----------------------------------------------------------------------
IsPrefix(a, b) == Len(a) <= Len(b) /\ SubSeq(b, 1, Len(a)) = a

(* C14 *)
PerStreamFifoExactlyOnce == \A h \in 1..Len(st) : IsPrefix(hostr[h], devw[h])
\* every byte the device wrote is either returned, buffered, queued, still on the wire - never lost
AcksMatchWrtes == \A h \in 1..Len(st) :
   Cardinality({i \in 1..Len(sent) : sent[i][1] = "OKAY" /\ sent[i][2] = st[h].lid /\ sent[i][3] = st[h].rid})
     <= Len(devw[h])
ChunksAtMostMaxData == \A i \in 1..Len(sent) : sent[i][1] = "WRTE" => Len(sent[i][4]) <= MaxData /\ Len(sent[i][4]) >= 1

(* C15 *)
OpenIds == {st[h].lid : h \in {x \in 1..Len(st) : st[x].inmap}}
IdsDistinctNonZeroBelowLimit ==
   /\ \A h \in 1..Len(st) : st[h].lid >= 1 /\ st[h].lid < Limit
   /\ \A a, b \in 1..Len(st) : (a # b /\ st[a].inmap /\ st[b].inmap) => st[a].lid # st[b].lid
AtMostOneClsePerStream == \A h \in 1..Len(st) :
   Cardinality({i \in 1..Len(sent) : sent[i][1] = "CLSE" /\ sent[i][2] = st[h].lid /\ sent[i][3] = st[h].rid}) <= 1
ClosedReleasesId == \A h \in 1..Len(st) : (st[h].state = "closed" /\ st[h].rid # 0) => ~st[h].inmap
UsableOnlyAfterOkay == \A h \in 1..Len(st) : st[h].state = "open" => st[h].rid # 0

Constraint == nops <= MaxOps /\ Len(wire) <= MaxWire /\ Len(hist) <= MaxOps + MaxWire + 2
Emit == (nops = MaxOps) => PrintT(<<"HIST", hist>>)
======================================================================
