CONSTANTS
  Watchers = {"w0", "w1"}
  Updaters = {"u0", "u1"}
  Changes = 2
  SnapFirst = FALSE
SPECIFICATION TSpec
INVARIANT Accept
INVARIANT NoLostUpdate
CHECK_DEADLOCK FALSE
