CONSTANT MaxAdds = 4
SPECIFICATION Spec
INVARIANT ViewCoherent
INVARIANT EveryListRepresented
INVARIANT StrictUnlessAllowed
INVARIANT EmitTable
PROPERTY ListsOnlyGrow
CHECK_DEADLOCK FALSE
