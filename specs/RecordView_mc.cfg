CONSTANT MaxAdds = 4
CONSTANT MaxOps = 4
SPECIFICATION Spec
INVARIANT ViewCoherent
INVARIANT EveryListRepresented
INVARIANT HeaderCoherent
INVARIANT StrictUnlessAllowed
INVARIANT EmitTable
INVARIANT EmitHist
PROPERTY ListsOnlyGrow
CHECK_DEADLOCK FALSE
