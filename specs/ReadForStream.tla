---- MODULE ReadForStream ----
(* AdbConnection.read_for_stream for threads reading DIFFERENT streams of one
   connection (C14: "each stream's reader obtains exactly the bytes the device
   wrote to that stream, in order, ... no lost wake-up between threads sharing
   the connection").  One thread per stream; each keeps reading until it has
   obtained every message the device sent to its stream.

   A thread polls its own queue, then tries the connection's reader lock
   without blocking; the holder of the lock re-checks its queue (RECHECK) and
   then consumes wire messages, queueing those of other streams and returning
   its own directly.  RECHECK = FALSE is the protocol without the second look
   at the queue: a message queued for a stream by the previous lock holder is
   then overtaken by a later one read straight off the wire. *)
EXTENDS Naturals, Sequences, TLC
CONSTANTS RECHECK, Wire, Streams
\* Wire: sequence of <<stream, payload>>

Sub(s) == SelectSeq(Wire, LAMBDA m : m[1] = s)
IsPrefix(a, b) == Len(a) <= Len(b) /\ SubSeq(b, 1, Len(a)) = a

(* --algorithm ReadForStream
variables wire = Wire, q = [s \in Streams |-> <<>>], lock = "free",
          got = [s \in Streams |-> <<>>];

fair process T \in Streams
variable m = <<>>;
begin
rd:    while Len(got[self]) < Len(Sub(self)) do
poll:    if q[self] # <<>> then                       \* message_queue.get(True, .01)
           got[self] := Append(got[self], Head(q[self])); q[self] := Tail(q[self]);
         else
try:       if lock = "free" then                      \* _reader_lock.acquire(False)
             lock := self;
rechk:       if RECHECK /\ q[self] # <<>> then        \* message_queue.get_nowait() under the lock
               got[self] := Append(got[self], Head(q[self])); q[self] := Tail(q[self]);
               lock := "free";
             else
rw:            while lock = self do
                 await wire # <<>>;                   \* transport.read_message (blocks)
                 m := Head(wire); wire := Tail(wire);
hm:              if m[1] = self then                  \* _handle_message_for_stream
                   got[self] := Append(got[self], m); lock := "free";   \* return msg / finally: release
                 else
                   q[m[1]] := Append(q[m[1]], m);
                 end if;
               end while;
             end if;
           end if;
         end if;
       end while;
end process;
end algorithm; *)
\* BEGIN TRANSLATION
VARIABLES pc, wire, q, lock, got, m

vars == << pc, wire, q, lock, got, m >>

ProcSet == (Streams)

Init == (* Global variables *)
        /\ wire = Wire
        /\ q = [s \in Streams |-> <<>>]
        /\ lock = "free"
        /\ got = [s \in Streams |-> <<>>]
        (* Process T *)
        /\ m = [self \in Streams |-> <<>>]
        /\ pc = [self \in ProcSet |-> "rd"]

rd(self) == /\ pc[self] = "rd"
            /\ IF Len(got[self]) < Len(Sub(self))
                  THEN /\ pc' = [pc EXCEPT ![self] = "poll"]
                  ELSE /\ pc' = [pc EXCEPT ![self] = "Done"]
            /\ UNCHANGED << wire, q, lock, got, m >>

poll(self) == /\ pc[self] = "poll"
              /\ IF q[self] # <<>>
                    THEN /\ got' = [got EXCEPT ![self] = Append(got[self], Head(q[self]))]
                         /\ q' = [q EXCEPT ![self] = Tail(q[self])]
                         /\ pc' = [pc EXCEPT ![self] = "rd"]
                    ELSE /\ pc' = [pc EXCEPT ![self] = "try"]
                         /\ UNCHANGED << q, got >>
              /\ UNCHANGED << wire, lock, m >>

try(self) == /\ pc[self] = "try"
             /\ IF lock = "free"
                   THEN /\ lock' = self
                        /\ pc' = [pc EXCEPT ![self] = "rechk"]
                   ELSE /\ pc' = [pc EXCEPT ![self] = "rd"]
                        /\ lock' = lock
             /\ UNCHANGED << wire, q, got, m >>

rechk(self) == /\ pc[self] = "rechk"
               /\ IF RECHECK /\ q[self] # <<>>
                     THEN /\ got' = [got EXCEPT ![self] = Append(got[self], Head(q[self]))]
                          /\ q' = [q EXCEPT ![self] = Tail(q[self])]
                          /\ lock' = "free"
                          /\ pc' = [pc EXCEPT ![self] = "rd"]
                     ELSE /\ pc' = [pc EXCEPT ![self] = "rw"]
                          /\ UNCHANGED << q, lock, got >>
               /\ UNCHANGED << wire, m >>

rw(self) == /\ pc[self] = "rw"
            /\ IF lock = self
                  THEN /\ wire # <<>>
                       /\ m' = [m EXCEPT ![self] = Head(wire)]
                       /\ wire' = Tail(wire)
                       /\ pc' = [pc EXCEPT ![self] = "hm"]
                  ELSE /\ pc' = [pc EXCEPT ![self] = "rd"]
                       /\ UNCHANGED << wire, m >>
            /\ UNCHANGED << q, lock, got >>

hm(self) == /\ pc[self] = "hm"
            /\ IF m[self][1] = self
                  THEN /\ got' = [got EXCEPT ![self] = Append(got[self], m[self])]
                       /\ lock' = "free"
                       /\ q' = q
                  ELSE /\ q' = [q EXCEPT ![m[self][1]] = Append(q[m[self][1]], m[self])]
                       /\ UNCHANGED << lock, got >>
            /\ pc' = [pc EXCEPT ![self] = "rw"]
            /\ UNCHANGED << wire, m >>

T(self) == rd(self) \/ poll(self) \/ try(self) \/ rechk(self) \/ rw(self)
              \/ hm(self)

(* Allow infinite stuttering to prevent deadlock on termination. *)
Terminating == /\ \A self \in ProcSet: pc[self] = "Done"
               /\ UNCHANGED vars

Next == (\E self \in Streams: T(self))
           \/ Terminating

Spec == /\ Init /\ [][Next]_vars
        /\ \A self \in Streams : WF_vars(T(self))

Termination == <>(\A self \in ProcSet: pc[self] = "Done")

\* END TRANSLATION

InOrder == \A s \in Streams : IsPrefix(got[s], Sub(s))
AllDelivered == <>(\A s \in Streams : got[s] = Sub(s))
LockOwner == lock \in Streams \cup {"free"}
====
