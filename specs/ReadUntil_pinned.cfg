CONSTANTS
  FIXED = FALSE
  FIXALL = FALSE
SPECIFICATION Spec
PROPERTY Termination
