---------------------------- MODULE Validators ----------------------------
(* C07: decision tables of the built-in validators (openhtf.util.validators).

   Every range validator only compares, so its behaviour is a function of the
   ORDER TYPE of (limits, probe).  Positions 0..10: limits sit on the odd
   positions 1,3,5,7,9 (0 = limit absent); probes range over all positions, an
   even position being strictly between / below / above the limit values (the
   driver concretises them with midpoints, float neighbours, +-inf, huge ints).
   Special probes: "None", "NaN".

   The tables are TRANSCRIBED FROM THE STATEMENT OF C07, not from the code. *)
EXTENDS Integers, Sequences, FiniteSets, TLC

Lim == {0, 1, 3, 5, 7, 9}       \* 0 = None
Probe == 0..10

(* "construction rejects inconsistent numeric limits (min > max, a marginal
   limit without or outside its bound, marginal minimum above marginal maximum" *)
RangeCtorOk(mn, mx, mmn, mmx) ==
  /\ ~(mn = 0 /\ mx = 0)
  /\ ~(mn # 0 /\ mx # 0 /\ mn > mx)
  /\ (mmn # 0 => mn # 0 /\ mn <= mmn)
  /\ (mmx # 0 => mx # 0 /\ mmx <= mx)
  /\ ~(mmn # 0 /\ mmx # 0 /\ mmn > mmx)

(* "both range bounds are inclusive" *)
RangePass(mn, mx, v) == (mn = 0 \/ v >= mn) /\ (mx = 0 \/ v <= mx)

(* "a passing value is marginal exactly when it lies between a bound and that
   bound's marginal limit (inclusive)" *)
RangeMarginal(mn, mx, mmn, mmx, v) ==
  /\ RangePass(mn, mx, v)
  /\ \/ (mmn # 0 /\ mn <= v /\ v <= mmn)
     \/ (mmx # 0 /\ mmx <= v /\ v <= mx)

RangeRows == {[lim |-> <<mn, mx, mmn, mmx>>, ok |-> RangeCtorOk(mn, mx, mmn, mmx),
               pass |-> {v \in Probe : RangePass(mn, mx, v)},
               marg |-> {v \in Probe : RangeMarginal(mn, mx, mmn, mmx, v)}] :
              mn \in Lim, mx \in Lim, mmn \in Lim, mmx \in Lim}

(* design-level sanity of the table *)
MarginalImpliesPass == \A r \in RangeRows : r.marg \subseteq r.pass
BoundsInclusive == \A r \in RangeRows : r.ok =>
   /\ (r.lim[1] # 0 => r.lim[1] \in r.pass /\ (r.lim[1] - 1) \notin r.pass)
   /\ (r.lim[2] # 0 => r.lim[2] \in r.pass /\ (r.lim[2] + 1) \notin r.pass)
MarginalBands == \A r \in RangeRows : r.ok =>
   r.marg = {v \in r.pass : (r.lim[3] # 0 /\ v <= r.lim[3]) \/ (r.lim[4] # 0 /\ v >= r.lim[4])}

(* all_in_range over pairs of probes: passes iff every element passes,
   marginal iff it passes and some element is in a marginal band *)
PairProbe == {<<a, b>> : a \in {0, 1, 2, 3, 5, 8, 9, 10}, b \in {1, 4, 5, 9, 10}}
AllRows == {[lim |-> r.lim, ok |-> r.ok,
             pass |-> {p \in PairProbe : p[1] \in r.pass /\ p[2] \in r.pass},
             marg |-> {p \in PairProbe : p[1] \in r.pass /\ p[2] \in r.pass
                                         /\ (p[1] \in r.marg \/ p[2] \in r.marg)}] : r \in RangeRows}

(* within_percent: "percent tolerance is symmetric around the expected value
   (also for negative expected values)"; "negative percent, marginal percent not
   below percent" rejected; "a marginal value always lies inside the tolerance".
   expected in units of 100 so that the tolerance is an exact integer. *)
Exp == {-200, -100, 0, 100, 200}
Pct == {-10, 0, 10, 50, 150}
MPct == {-1, 0, 5, 10, 50, 150}     \* -1 = None
Abs(x) == IF x < 0 THEN -x ELSE x
PctCtorOk(p, m) == p >= 0 /\ (m # -1 => m < p)
Tol(e, p) == Abs(e * p) \div 100
PctPass(e, p, v) == e - Tol(e, p) <= v /\ v <= e + Tol(e, p)
\* marginal is pinned down only strictly inside the tolerance; at the outer
\* bound itself the statement only requires marginal => pass
PctMargMust(e, p, m, v) == m > 0 /\ Abs(v - e) < Tol(e, p) /\ Abs(v - e) >= Tol(e, m)
PctMargMay(e, p, m, v) == m > 0 /\ PctPass(e, p, v) /\ Abs(v - e) >= Tol(e, m)
PctProbes(e, p) == {e + s * d : s \in {-1, 1},
                    d \in {0, 1, Tol(e, 5), Tol(e, 10), Tol(e, 10) + 1, Tol(e, p) - 1, Tol(e, p), Tol(e, p) + 1,
                           Tol(e, 150) + 7}}
PctRows == {[e |-> e, p |-> p, m |-> m, ok |-> PctCtorOk(p, m),
             pass |-> {v \in PctProbes(e, Abs(p)) : PctPass(e, p, v)},
             must |-> {v \in PctProbes(e, Abs(p)) : PctMargMust(e, p, m, v)},
             may |-> {v \in PctProbes(e, Abs(p)) : PctMargMay(e, p, m, v)},
             probes |-> PctProbes(e, Abs(p))] : e \in Exp, p \in Pct, m \in MPct}
PctSymmetric == \A r \in PctRows : r.ok => \A v \in r.probes : (v \in r.pass <=> (2 * r.e - v) \in r.pass)
PctMarginalInside == \A r \in PctRows : r.must \subseteq r.may /\ r.may \subseteq r.pass

(* equals / matches_regex on strings: spec token S; probes are built from S:
   "equals(str) accepts that literal string and nothing that differs from it by
   more than one trailing newline"; "regexes are matched from the start of
   str(value)" *)
StrProbes == {"S", "S+nl", "S+nl+nl", "S+x", "x+S", "prefix", "empty", "upper", "nl+S"}
EqualsStrMust == {"S"}
EqualsStrMay == {"S", "S+nl"}
RegexFromStart == [p \in StrProbes |-> p \in {"S", "S+nl", "S+nl+nl", "S+x"}]   \* regex = re.escape(S)

(* dimension pivots over rows whose last column passes (TRUE) or not *)
BoolSeqs == UNION {[1..n -> BOOLEAN] : n \in 0..3}
PivotAll(q) == \A i \in 1..Len(q) : q[i]
\* "once [a row] pass[es], [the] rest must also pass": from the FIRST passing row on
PivotConsistentEnd(q) == \E i \in 1..Len(q) : /\ q[i] /\ (\A k \in 1..(i - 1) : ~q[k])
                                                /\ \A j \in i..Len(q) : q[j]
PivotRows == {[q |-> q, all |-> PivotAll(q), cend |-> PivotConsistentEnd(q)] : q \in BoolSeqs}

(* equals / all_equals on numbers and objects: dispatch by the type of the spec *)
EqKinds == {"int", "float", "str", "tuple"}
EqRows == {[k |-> k, same |-> TRUE, other |-> FALSE, none |-> FALSE] : k \in EqKinds}

Init == TRUE
Next == FALSE
Emit == /\ PrintT(<<"RANGE", RangeRows>>) /\ PrintT(<<"ALL", AllRows>>) /\ PrintT(<<"PCT", PctRows>>)
        /\ PrintT(<<"STR", [must |-> EqualsStrMust, may |-> EqualsStrMay,
                            regex |-> {p \in StrProbes : RegexFromStart[p]}, probes |-> StrProbes]>>)
        /\ PrintT(<<"PIVOT", PivotRows>>) /\ PrintT(<<"EQ", EqRows>>)
VARIABLE x
Spec == x = 0 /\ [][FALSE]_x
EmitInv == Emit
Checks == MarginalImpliesPass /\ BoundsInclusive /\ MarginalBands /\ PctSymmetric /\ PctMarginalInside
======================================================================
