CONSTANTS
  RECHECK = FALSE
  Wire <- W3
  Streams <- S2
SPECIFICATION Spec
INVARIANT InOrder
