---------------------------- MODULE KillableThread ----------------------------
(* C12 (kill half): openhtf.util.threads.KillableThread.

   run():   r1  acquire _running_lock
            r2  if _killed: raise ThreadTerminationError   (body never runs)
            b1..bN  the body (_thread_proc); an asynchronous exception that is
                    pending is delivered at one of these steps
            r3  release _running_lock (also on the exception path)
            h1  _thread_exception handler (only for ordinary exceptions)
            h2  _thread_finished handler
   kill():  k1  _killed.set()
            k2  if not alive: return
            k3  probe _running_lock without blocking; if it could be taken the
                body is not running: return; otherwise PyThreadState_SetAsyncExc
                (probe and raise are ONE step here: the code does them without
                any synchronisation operation in between; AtomicProbe = FALSE
                splits them to expose the window the class docstring admits)
   The thread may be started before or after kill() is called. *)
EXTENDS Naturals, Sequences, TLC

CONSTANTS BodySteps, AtomicProbe

(* --algorithm KillableThread
variables runLock = "free", killedFlag = FALSE, started = FALSE, finished = FALSE,
          pending = FALSE,          \* an asynchronous exception is pending for T
          bodyRan = FALSE, bodyDone = FALSE,
          raisedIn = "none",        \* where the asynchronous exception surfaced
          killReqAt = "none",       \* T's position when kill() was called
          flagBeforeLock = FALSE,   \* the killed flag was set before T took its running lock
          probeSaw = "none";

define
  TPos == IF ~started THEN "notstarted"
          ELSE IF pc["T"] \in {"st", "r1", "r2"} THEN "prebody"
          ELSE IF pc["T"] \in {"body", "r3"} THEN "body"      \* r3: the body returned, the lock is not yet released
          ELSE IF pc["T"] \in {"h2"} THEN "handlers" ELSE "finished"
end define;

fair process T = "T"
variables i = 0;
begin
st:   await started;
r1:   await runLock = "free"; runLock := "T";
r2:   if pending then               \* delivered inside the locked region
        pending := FALSE; raisedIn := "locked"; goto r3;
      elsif killedFlag then
        goto r3;
      end if;
body: while i < BodySteps do
        bodyRan := TRUE;
        if pending then
          pending := FALSE; raisedIn := "locked"; goto r3;
        else
          i := i + 1;
        end if;
      end while;
      bodyDone := TRUE;
r3:   if pending then pending := FALSE; raisedIn := "locked"; end if;   \* still before the release
      runLock := "free";
h2:   if pending then pending := FALSE; raisedIn := "handlers"; end if;
      finished := TRUE;
end process;

fair process S = "S"      \* whoever calls start()
begin
s1:   started := TRUE;
end process;

fair process K = "K"
begin
k1:   killedFlag := TRUE; killReqAt := TPos;
      flagBeforeLock := (~started \/ pc["T"] \in {"st", "r1"});
k2:   if ~started \/ finished then
        goto kdone;
      end if;
k3:   if runLock = "free" then
        probeSaw := "free"; goto kdone;
      else
        probeSaw := "held";
        if AtomicProbe then pending := TRUE; goto kdone; end if;
      end if;
k4:   if ~finished then pending := TRUE; end if;
kdone: skip;
end process;
end algorithm; *)
\* BEGIN TRANSLATION
VARIABLES pc, runLock, killedFlag, started, finished, pending, bodyRan, 
          bodyDone, raisedIn, killReqAt, flagBeforeLock, probeSaw

(* define statement *)
TPos == IF ~started THEN "notstarted"
        ELSE IF pc["T"] \in {"st", "r1", "r2"} THEN "prebody"
        ELSE IF pc["T"] \in {"body", "r3"} THEN "body"
        ELSE IF pc["T"] \in {"h2"} THEN "handlers" ELSE "finished"

VARIABLE i

vars == << pc, runLock, killedFlag, started, finished, pending, bodyRan, 
           bodyDone, raisedIn, killReqAt, flagBeforeLock, probeSaw, i >>

ProcSet == {"T"} \cup {"S"} \cup {"K"}

Init == (* Global variables *)
        /\ runLock = "free"
        /\ killedFlag = FALSE
        /\ started = FALSE
        /\ finished = FALSE
        /\ pending = FALSE
        /\ bodyRan = FALSE
        /\ bodyDone = FALSE
        /\ raisedIn = "none"
        /\ killReqAt = "none"
        /\ flagBeforeLock = FALSE
        /\ probeSaw = "none"
        (* Process T *)
        /\ i = 0
        /\ pc = [self \in ProcSet |-> CASE self = "T" -> "st"
                                        [] self = "S" -> "s1"
                                        [] self = "K" -> "k1"]

st == /\ pc["T"] = "st"
      /\ started
      /\ pc' = [pc EXCEPT !["T"] = "r1"]
      /\ UNCHANGED << runLock, killedFlag, started, finished, pending, bodyRan, 
                      bodyDone, raisedIn, killReqAt, flagBeforeLock, probeSaw, 
                      i >>

r1 == /\ pc["T"] = "r1"
      /\ runLock = "free"
      /\ runLock' = "T"
      /\ pc' = [pc EXCEPT !["T"] = "r2"]
      /\ UNCHANGED << killedFlag, started, finished, pending, bodyRan, 
                      bodyDone, raisedIn, killReqAt, flagBeforeLock, probeSaw, 
                      i >>

r2 == /\ pc["T"] = "r2"
      /\ IF pending
            THEN /\ pending' = FALSE
                 /\ raisedIn' = "locked"
                 /\ pc' = [pc EXCEPT !["T"] = "r3"]
            ELSE /\ IF killedFlag
                       THEN /\ pc' = [pc EXCEPT !["T"] = "r3"]
                       ELSE /\ pc' = [pc EXCEPT !["T"] = "body"]
                 /\ UNCHANGED << pending, raisedIn >>
      /\ UNCHANGED << runLock, killedFlag, started, finished, bodyRan, 
                      bodyDone, killReqAt, flagBeforeLock, probeSaw, i >>

body == /\ pc["T"] = "body"
        /\ IF i < BodySteps
              THEN /\ bodyRan' = TRUE
                   /\ IF pending
                         THEN /\ pending' = FALSE
                              /\ raisedIn' = "locked"
                              /\ pc' = [pc EXCEPT !["T"] = "r3"]
                              /\ i' = i
                         ELSE /\ i' = i + 1
                              /\ pc' = [pc EXCEPT !["T"] = "body"]
                              /\ UNCHANGED << pending, raisedIn >>
                   /\ UNCHANGED bodyDone
              ELSE /\ bodyDone' = TRUE
                   /\ pc' = [pc EXCEPT !["T"] = "r3"]
                   /\ UNCHANGED << pending, bodyRan, raisedIn, i >>
        /\ UNCHANGED << runLock, killedFlag, started, finished, killReqAt, 
                        flagBeforeLock, probeSaw >>

r3 == /\ pc["T"] = "r3"
      /\ IF pending
            THEN /\ pending' = FALSE
                 /\ raisedIn' = "locked"
            ELSE /\ TRUE
                 /\ UNCHANGED << pending, raisedIn >>
      /\ runLock' = "free"
      /\ pc' = [pc EXCEPT !["T"] = "h2"]
      /\ UNCHANGED << killedFlag, started, finished, bodyRan, bodyDone, 
                      killReqAt, flagBeforeLock, probeSaw, i >>

h2 == /\ pc["T"] = "h2"
      /\ IF pending
            THEN /\ pending' = FALSE
                 /\ raisedIn' = "handlers"
            ELSE /\ TRUE
                 /\ UNCHANGED << pending, raisedIn >>
      /\ finished' = TRUE
      /\ pc' = [pc EXCEPT !["T"] = "Done"]
      /\ UNCHANGED << runLock, killedFlag, started, bodyRan, bodyDone, 
                      killReqAt, flagBeforeLock, probeSaw, i >>

T == st \/ r1 \/ r2 \/ body \/ r3 \/ h2

s1 == /\ pc["S"] = "s1"
      /\ started' = TRUE
      /\ pc' = [pc EXCEPT !["S"] = "Done"]
      /\ UNCHANGED << runLock, killedFlag, finished, pending, bodyRan, 
                      bodyDone, raisedIn, killReqAt, flagBeforeLock, probeSaw, 
                      i >>

S == s1

k1 == /\ pc["K"] = "k1"
      /\ killedFlag' = TRUE
      /\ killReqAt' = TPos
      /\ flagBeforeLock' = (~started \/ pc["T"] \in {"st", "r1"})
      /\ pc' = [pc EXCEPT !["K"] = "k2"]
      /\ UNCHANGED << runLock, started, finished, pending, bodyRan, bodyDone, 
                      raisedIn, probeSaw, i >>

k2 == /\ pc["K"] = "k2"
      /\ IF ~started \/ finished
            THEN /\ pc' = [pc EXCEPT !["K"] = "kdone"]
            ELSE /\ pc' = [pc EXCEPT !["K"] = "k3"]
      /\ UNCHANGED << runLock, killedFlag, started, finished, pending, bodyRan, 
                      bodyDone, raisedIn, killReqAt, flagBeforeLock, probeSaw, 
                      i >>

k3 == /\ pc["K"] = "k3"
      /\ IF runLock = "free"
            THEN /\ probeSaw' = "free"
                 /\ pc' = [pc EXCEPT !["K"] = "kdone"]
                 /\ UNCHANGED pending
            ELSE /\ probeSaw' = "held"
                 /\ IF AtomicProbe
                       THEN /\ pending' = TRUE
                            /\ pc' = [pc EXCEPT !["K"] = "kdone"]
                       ELSE /\ pc' = [pc EXCEPT !["K"] = "k4"]
                            /\ UNCHANGED pending
      /\ UNCHANGED << runLock, killedFlag, started, finished, bodyRan, 
                      bodyDone, raisedIn, killReqAt, flagBeforeLock, i >>

k4 == /\ pc["K"] = "k4"
      /\ IF ~finished
            THEN /\ pending' = TRUE
            ELSE /\ TRUE
                 /\ UNCHANGED pending
      /\ pc' = [pc EXCEPT !["K"] = "kdone"]
      /\ UNCHANGED << runLock, killedFlag, started, finished, bodyRan, 
                      bodyDone, raisedIn, killReqAt, flagBeforeLock, probeSaw, 
                      i >>

kdone == /\ pc["K"] = "kdone"
         /\ TRUE
         /\ pc' = [pc EXCEPT !["K"] = "Done"]
         /\ UNCHANGED << runLock, killedFlag, started, finished, pending, 
                         bodyRan, bodyDone, raisedIn, killReqAt, 
                         flagBeforeLock, probeSaw, i >>

K == k1 \/ k2 \/ k3 \/ k4 \/ kdone

(* Allow infinite stuttering to prevent deadlock on termination. *)
Terminating == /\ \A self \in ProcSet: pc[self] = "Done"
               /\ UNCHANGED vars

Next == T \/ S \/ K
           \/ Terminating

Spec == /\ Init /\ [][Next]_vars
        /\ WF_vars(T)
        /\ WF_vars(S)
        /\ WF_vars(K)

Termination == <>(\A self \in ProcSet: pc[self] = "Done")

\* END TRANSLATION 

(* "A kill requested before a killable thread started prevents its body from ever running" *)
KillBeforeStart == (killReqAt = "notstarted") => ~bodyRan
(* "a kill requested after the body returned (while its exception/finish
   handlers run, or after it finished) has no effect" *)
KillAfterBodyNoEffect == (killReqAt \in {"handlers", "finished"}) => (raisedIn = "none" /\ ~pending)
(* "a kill requested while the body runs raises ThreadTerminationError in that thread" -
   confined to the body: never in the handlers *)
ConfinedToBody == raisedIn # "handlers"
NoPendingAfterFinish == finished => ~pending
(* a kill is never lost: if the flag was set before the thread took its running
   lock (it tests the flag under that lock), the body never runs *)
FlagBeforeLockMeansNoBody == flagBeforeLock => ~bodyRan
====
