CONSTANTS
  TIMEOUTS = TRUE
  NOTIFYEXIT = TRUE
  FIXED = TRUE
  FIXALL = TRUE
SPECIFICATION Spec
PROPERTY Termination
