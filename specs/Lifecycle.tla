---------------------------- MODULE Lifecycle ----------------------------
(* One openhtf.Test object across a history of execute() calls (C09).

   execute() is several actions because other things can happen in between:
   Begin (under Test._lock: refuse if an executor exists, else create executor,
   register for SIGINT, start) - [test runs: Executor.tla] - Finalize (the
   executor thread ended: outcome decided by the exit path) - Callback(i) for
   each registered output callback in order (a raising callback is logged and
   skipped) - End (deregister, close = remove log handler, drop executor,
   return outcome = PASS or re-raise KeyboardInterrupt).
   An overlapping execute() on the same object - issued while the test runs
   (overlap = "start": from inside the test_start phase body) or while the first
   call is already finalizing (overlap = "cb": from inside the first output
   callback, the executor thread has ended by then) - must be refused with
   InvalidTestStateError and must disturb nothing. *)
EXTENDS Naturals, Sequences, FiniteSets, TLC

CONSTANTS Paths,     \* exit paths of a run
          NCb,       \* number of registered output callbacks
          MaxCalls,  \* bound on execute() calls in a history
          RaiseSets, \* which subsets of callbacks may raise
          Duts       \* subset of BOOLEAN: does test_start set a DUT id

VARIABLES slot,   \* 0 = Test holds no executor, else the run number
          reg,    \* run numbers registered in Test.TEST_INSTANCES
          hnd,    \* run numbers whose record log handler is installed
          st,     \* state of the current run: "idle" "running" "cb" 
          cur,    \* [path, raises, overlap, dut] of the current run
          cbi,    \* next callback index
          cbs,    \* callbacks delivered for the current run: <<i, how>>
          nruns,  \* completed + current runs
          refused,\* number of refused overlapping calls in the current run
          hist    \* emitted history

vars == <<slot, reg, hnd, st, cur, cbi, cbs, nruns, refused, hist>>

OutcomeOf(p) == CASE p = "pass" -> "PASS" [] p = "fail" -> "FAIL" [] p = "stop" -> "FAIL"
                  [] p = "fail_unset" -> "FAIL"     \* a dimensioned measurement left unset fails its phase
                  [] p = "error" -> "ERROR" [] p = "start_terminal" -> "ERROR"
                  [] p = "plug_fail" -> "ERROR" [] p = "timeout" -> "TIMEOUT"
                  [] p = "abort" -> "ABORTED" [] p = "sigint" -> "ABORTED"

NoRun == [path |-> "", raises |-> {}, overlap |-> "none", dut |-> FALSE]

Init == /\ slot = 0 /\ reg = {} /\ hnd = {} /\ st = "idle" /\ cur = NoRun
        /\ cbi = 0 /\ cbs = <<>> /\ nruns = 0 /\ refused = 0 /\ hist = <<>>

Begin(p, rs, ov, dut) ==
  /\ slot = 0 /\ st = "idle" /\ nruns < MaxCalls
  /\ nruns' = nruns + 1 /\ slot' = nruns + 1
  /\ reg' = reg \cup {nruns + 1} /\ hnd' = hnd \cup {nruns + 1}
  /\ st' = "running" /\ cur' = [path |-> p, raises |-> rs, overlap |-> ov, dut |-> dut]
  /\ cbi' = 1 /\ cbs' = <<>> /\ refused' = 0
  /\ UNCHANGED hist

\* a second execute() while one is running: refused, nothing changes
Overlap ==
  /\ \/ (st = "running" /\ cur.overlap = "start")
     \/ (st = "cb" /\ cur.overlap = "cb" /\ cbi = 2)       \* during the first output callback
  /\ refused = 0
  /\ refused' = 1
  /\ UNCHANGED <<slot, reg, hnd, st, cur, cbi, cbs, nruns, hist>>

Finalize ==
  /\ st = "running" /\ (cur.overlap = "start" => refused = 1)
  /\ st' = "cb"
  /\ UNCHANGED <<slot, reg, hnd, cur, cbi, cbs, nruns, refused, hist>>

Callback ==
  /\ st = "cb" /\ cbi <= NCb
  /\ (cur.overlap = "cb" /\ cbi = 2) => refused = 1
  /\ cbs' = Append(cbs, <<cbi, IF cbi \in cur.raises THEN "raises" ELSE "ok">>)
  /\ cbi' = cbi + 1
  /\ UNCHANGED <<slot, reg, hnd, st, cur, nruns, refused, hist>>

End ==
  /\ st = "cb" /\ cbi > NCb
  /\ slot' = 0 /\ reg' = reg \ {slot} /\ hnd' = hnd \ {slot}
  /\ st' = "idle" /\ cur' = NoRun /\ cbi' = 0 /\ cbs' = <<>> /\ refused' = 0
  /\ hist' = Append(hist, [path |-> cur.path, raises |-> cur.raises, overlap |-> cur.overlap,
                           dut |-> cur.dut, oc |-> OutcomeOf(cur.path),
                           ret |-> IF cur.path = "sigint" THEN "KeyboardInterrupt"
                                   ELSE IF OutcomeOf(cur.path) = "PASS" THEN "True" ELSE "False",
                           cbs |-> cbs, refused |-> refused])
  /\ UNCHANGED nruns

Next == \/ \E p \in Paths, rs \in RaiseSets, ov \in {"none", "start", "cb"}, dut \in Duts : Begin(p, rs, ov, dut)
        \/ Overlap \/ Finalize \/ Callback \/ End

Spec == Init /\ [][Next]_vars

----------------------------------------------------------------------
TypeOK == slot \in 0..MaxCalls /\ reg \subseteq 1..MaxCalls /\ hnd \subseteq 1..MaxCalls

(* "Afterwards the Test holds no executor, is no longer registered for SIGINT,
   its record log handler is removed" *)
NoLeak == (st = "idle") => (slot = 0 /\ reg = {} /\ hnd = {})
AtMostOneRun == Cardinality(reg) <= 1 /\ Cardinality(hnd) <= 1 /\ (slot # 0 => reg = {slot})

(* "Every registered output callback has been called exactly once, in
   registration order ... even if other callbacks raise" *)
CallbacksInOrder == \A i \in 1..Len(cbs) : cbs[i][1] = i
AllCallbacksAtEnd == [][(st = "cb" /\ st' = "idle") => Len(cbs) = NCb]_vars
NoCallbackBeforeFinal == (st = "running") => cbs = <<>>

(* "a second execute() overlapping a running one is refused ... " and disturbs nothing *)
OverlapDisturbsNothing == [][(refused' # refused /\ refused' = 1) =>
                              UNCHANGED <<slot, reg, hnd, st, cur, cbi, cbs, nruns>>]_vars

(* "execute() returns True iff the outcome is PASS" *)
ReturnIffPass == \A i \in 1..Len(hist) :
   (hist[i].ret = "True") <=> (hist[i].oc = "PASS")

HistConstraint == Len(hist) <= MaxCalls
Emit == (Len(hist) = MaxCalls /\ st = "idle") => PrintT(<<"HIST", hist>>)
======================================================================
