\* exhaustive design check: hist hidden by the VIEW
CONSTANTS
  Keys = {"ka", "kb"}
  BadKeys = {"Bad"}
  Vals = {"v1", "v2"}
  Apis = {"dict"}
  MaxLen = 100
  MaxNest = 1
  Load2On = TRUE
SPECIFICATION Spec
VIEW DesignView
CONSTRAINT HistConstraint
INVARIANT TypeOK
INVARIANT Precedence
INVARIANT UndeclaredNeverReadable
INVARIANT ViewsAgree
PROPERTY NoUndeclare
PROPERTY FlagsOnlyGrow
PROPERTY RestoreExact
PROPERTY ResetKeepsFlags
PROPERTY UndeclaredNotLoaded
CHECK_DEADLOCK FALSE
