---------------------------- MODULE LogsWalk ----------------------------
(* C19, handler list protocol: a logging call walks the handler list of the
   "openhtf" logger one handler per step (Logger.callHandlers) while another
   run ends and removes its handler (logs.remove_record_handler).
   InPlace = TRUE removes from the list object being iterated (the walk then
   skips the next handler); InPlace = FALSE installs a new list object. *)
EXTENDS Naturals, Sequences, FiniteSets, TLC
CONSTANT InPlace
VARIABLES hl,        \* the list object the logger currently points to
          walk,      \* the list object the emitter iterates (same object as hl when InPlace)
          idx,       \* emitter's position
          got,       \* handlers that received the framework message
          removed, epc
pvars == <<hl, walk, idx, got, removed, epc>>
PInit == /\ hl = <<"A", "B">> /\ walk = <<>> /\ idx = 0 /\ got = {} /\ removed = FALSE /\ epc = "idle"
EStart == /\ epc = "idle" /\ walk' = hl /\ idx' = 1 /\ epc' = "walking" /\ UNCHANGED <<hl, got, removed>>
CurList == IF InPlace THEN hl ELSE walk        \* in place: the walk sees the mutated list
EStep == /\ epc = "walking"
         /\ IF idx <= Len(CurList)
            THEN /\ got' = got \cup {CurList[idx]} /\ idx' = idx + 1 /\ UNCHANGED epc
            ELSE /\ epc' = "done" /\ UNCHANGED <<got, idx>>
         /\ UNCHANGED <<hl, walk, removed>>
RemoveA == /\ ~removed /\ removed' = TRUE
           /\ hl' = SelectSeq(hl, LAMBDA x : x # "A")
           /\ UNCHANGED <<walk, idx, got, epc>>
PNext == EStart \/ EStep \/ RemoveA
PSpec == PInit /\ [][PNext]_pvars
(* "every framework message emitted ... during the run is appended ... to that
   run's log_records": run B is live during the whole call, so it must get it *)
LiveRunGetsMessage == (epc = "done") => "B" \in got
======================================================================
