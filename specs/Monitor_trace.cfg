CONSTANTS
  I = 500
  MaxT = 1000000
SPECIFICATION TSpec
INVARIANT Accept
INVARIANT RowsAreCalls
INVARIANT KeysIncrease
INVARIANT NeverEarly
INVARIANT JoinedMeansDead
PROPERTY NoLateSample
CHECK_DEADLOCK FALSE
