---------------------------- MODULE Config ----------------------------
(* openhtf.util.configuration._Configuration: three layers (declarations,
   loaded values, flag values) and every read API.  One action per public
   call; save_and_restore is two actions (call / return) because the wrapped
   function may perform arbitrary operations in between.

   Values are opaque tokens ("v1", "v2", ...); the driver concretises them
   with Python values of several types.  "none" = no value / no default.

   Property C20 (statement clauses in quotes next to the formulas below). *)
EXTENDS Naturals, Sequences, FiniteSets, TLC

CONSTANTS Keys,        \* valid key names (begin with a lowercase letter)
          BadKeys,     \* invalid key names
          Vals,        \* value tokens
          Apis,        \* subset of {"kw","dict","file"}: which load API
          MaxLen,      \* bound on the history length (emit / constraint)
          MaxNest,     \* bound on nested save_and_restore calls
          Load2On      \* enable two-key loads

VARIABLES decl,    \* [Keys -> "undeclared" | "nodefault" | value token (= default)]
          loaded,  \* [Keys -> "none" | value token]
          flags,   \* [Keys -> "none" | value token]
          stack,   \* sequence of saved `loaded` snapshots (open save_and_restore calls)
          hist     \* sequence of [op, res, obs]: the emitted history

vars == <<decl, loaded, flags, stack, hist>>
state == <<decl, loaded, flags, stack>>

Declared(k) == decl[k] # "undeclared"
HasDefault(k) == decl[k] \notin {"undeclared", "nodefault"}

(* "reading a declared key yields the flag value if one was given, else the
   currently loaded value, else the declared default, else UnsetKeyError;
   undeclared keys are never readable" *)
Read(k) == IF ~Declared(k) THEN "UndeclaredKeyError"
           ELSE IF flags[k] # "none" THEN flags[k]
           ELSE IF loaded[k] # "none" THEN loaded[k]
           ELSE IF HasDefault(k) THEN decl[k]
           ELSE "UnsetKeyError"

Contains(k) == Declared(k) /\ Read(k) # "UnsetKeyError"

(* entry of the _asdict() snapshot for a *declared* key ("absent" if none) *)
AsDict(k) == IF Contains(k) THEN Read(k) ELSE "absent"

HolderDefault(k) == IF HasDefault(k) THEN decl[k] ELSE "DefaultNotDefinedError"

Obs == [k \in Keys |->
          IF Declared(k)
          THEN [in |-> Contains(k), item |-> Read(k), attr |-> Read(k),
                holder |-> Read(k), hdefault |-> HolderDefault(k), asdict |-> AsDict(k)]
          ELSE [in |-> FALSE, item |-> "UndeclaredKeyError", attr |-> "UndeclaredKeyError",
                holder |-> "n/a", hdefault |-> "n/a", asdict |-> "n/a"]]

\* Rec must be the last conjunct of an action: it reads the primed state.
\* The emitted observation is compact: per key <<in, read, holder default,
\* asdict entry>>; item access, attribute access and holder.value must all
\* equal `read` (that is the ViewsAgree clause, enforced by the driver).
CObs == [k \in Keys |-> <<Obs[k].in, Obs[k].item, Obs[k].hdefault, Obs[k].asdict>>]
Rec(op, res) == hist' = Append(hist, <<op, res, CObs'>>)

Init == /\ decl = [k \in Keys |-> "undeclared"]
        /\ loaded = [k \in Keys |-> "none"]
        /\ flags = [k \in Keys |-> "none"]
        /\ stack = <<>>
        /\ hist = <<>>

(* declare(): "keys can [not] be redeclared"; invalid names rejected *)
Declare(k, d) ==
  /\ k \in Keys
  /\ UNCHANGED <<loaded, flags, stack>>
  /\ IF Declared(k)
     THEN /\ UNCHANGED <<decl>> /\ Rec(<<"declare", k, d>>, "KeyAlreadyDeclaredError")
     ELSE /\ decl' = [decl EXCEPT ![k] = IF d = "none" THEN "nodefault" ELSE d]
          /\ Rec(<<"declare", k, d>>, "ok")

DeclareBad(k) ==
  /\ k \in BadKeys
  /\ UNCHANGED <<decl, loaded, flags, stack>>
  /\ Rec(<<"declare", k, "none">>, "InvalidKeyError")

(* load()/load_from_dict()/load_from_file() with a sequence of distinct keys:
   "later loads override earlier ones unless _override=False";
   "[undeclared keys] are not loaded unless explicitly allowed" *)
LoadOne(l, k, v, ov, allow) ==
  IF ~Declared(k) /\ ~allow THEN l
  ELSE IF l[k] # "none" /\ ~ov THEN l
  ELSE [l EXCEPT ![k] = v]

RECURSIVE LoadAll(_, _, _, _)
LoadAll(l, kvs, ov, allow) ==
  IF kvs = <<>> THEN l
  ELSE LoadAll(LoadOne(l, kvs[1][1], kvs[1][2], ov, allow), Tail(kvs), ov, allow)

Load(kvs, ov, allow, api) ==
  /\ loaded' = LoadAll(loaded, kvs, ov, allow)
  /\ UNCHANGED <<decl, flags, stack>>
  /\ Rec(<<"load", kvs, ov, allow, api>>, "ok")

(* --config-value flags: the first value given for a key wins *)
Flag(k, v) ==
  /\ flags' = [flags EXCEPT ![k] = IF @ = "none" THEN v ELSE @]
  /\ UNCHANGED <<decl, loaded, stack>>
  /\ Rec(<<"flag", k, v>>, "ok")

(* "reset drops loaded values but not flags" *)
Reset ==
  /\ loaded' = [k \in Keys |-> "none"]
  /\ UNCHANGED <<decl, flags, stack>>
  /\ Rec(<<"reset">>, "ok")

(* save_and_restore: call = snapshot the loaded layer, then load the inline
   values (override, declared only); return (normally or by exception) =
   "restores exactly the loaded values present at call time even if the
   wrapped function raises" *)
SaveCall(kvs) ==
  /\ Len(stack) < MaxNest
  /\ stack' = Append(stack, loaded)
  /\ loaded' = LoadAll(loaded, kvs, TRUE, FALSE)
  /\ UNCHANGED <<decl, flags>>
  /\ Rec(<<"save_call", kvs>>, "ok")

SaveReturn(raises) ==
  /\ stack # <<>>
  /\ loaded' = stack[Len(stack)]
  /\ stack' = SubSeq(stack, 1, Len(stack) - 1)
  /\ UNCHANGED <<decl, flags>>
  /\ Rec(<<"save_return", raises>>, IF raises THEN "raised" ELSE "ok")

(* "keys can [not] be set by attribute assignment" *)
SetAttr(k, v) ==
  /\ UNCHANGED <<decl, loaded, flags, stack>>
  /\ Rec(<<"setattr", k, v>>, "AttributeError")

KV1 == {<< <<k, v>> >> : k \in Keys, v \in Vals}
KV2 == {<< <<k1, v1>>, <<k2, v2>> >> : k1 \in Keys, k2 \in Keys, v1 \in Vals, v2 \in Vals}
KVs2 == {kv \in KV2 : kv[1][1] # kv[2][1]}

Next ==
  \/ \E k \in Keys, d \in Vals \cup {"none"} : Declare(k, d)
  \/ \E k \in BadKeys : DeclareBad(k)
  \/ \E kvs \in KV1, ov \in BOOLEAN, allow \in BOOLEAN, api \in Apis : Load(kvs, ov, allow, api)
  \/ \E kvs \in KVs2, ov \in BOOLEAN, api \in Apis : Load2On /\ Load(kvs, ov, TRUE, api)
  \/ \E k \in Keys, v \in Vals : Flag(k, v)
  \/ Reset
  \/ \E kvs \in KV1 \cup {<<>>} : SaveCall(kvs)
  \/ \E r \in BOOLEAN : SaveReturn(r)
  \/ \E k \in Keys, v \in Vals : SetAttr(k, v)

Spec == Init /\ [][Next]_vars

----------------------------------------------------------------------
(* Design-level properties (checked by TLC on the model) *)

TypeOK == /\ \A k \in Keys : decl[k] \in {"undeclared", "nodefault"} \cup Vals
          /\ \A k \in Keys : loaded[k] \in {"none"} \cup Vals
          /\ \A k \in Keys : flags[k] \in {"none"} \cup Vals

(* flag > loaded > default > UnsetKeyError *)
Precedence == \A k \in Keys : Declared(k) =>
   /\ (flags[k] # "none" => Read(k) = flags[k])
   /\ (flags[k] = "none" /\ loaded[k] # "none" => Read(k) = loaded[k])
   /\ (flags[k] = "none" /\ loaded[k] = "none" /\ HasDefault(k) => Read(k) = decl[k])
   /\ (flags[k] = "none" /\ loaded[k] = "none" /\ ~HasDefault(k) => Read(k) = "UnsetKeyError")

UndeclaredNeverReadable == \A k \in Keys : ~Declared(k) =>
   /\ Obs[k].in = FALSE /\ Obs[k].item = "UndeclaredKeyError" /\ Obs[k].attr = "UndeclaredKeyError"

ViewsAgree == \A k \in Keys : Declared(k) =>
   /\ Obs[k].item = Obs[k].attr /\ Obs[k].item = Obs[k].holder
   /\ (Obs[k].in <=> Obs[k].item # "UnsetKeyError")
   /\ (Obs[k].in => Obs[k].asdict = Obs[k].item)
   /\ (~Obs[k].in => Obs[k].asdict = "absent")

(* action properties *)
LastOp == hist'[Len(hist')][1][1]
NoUndeclare == [][\A k \in Keys : Declared(k) => decl'[k] = decl[k]]_vars
FlagsOnlyGrow == [][\A k \in Keys : flags[k] # "none" => flags'[k] = flags[k]]_vars
RestoreExact == [][(Len(stack') < Len(stack)) => loaded' = stack[Len(stack)]]_vars
ResetKeepsFlags == [][(LastOp = "reset") => (flags' = flags /\ decl' = decl)]_vars
UndeclaredNotLoaded ==
  [][\A k \in Keys : (~Declared(k) /\ loaded'[k] # loaded[k] /\ Len(stack') >= Len(stack))
        => (LastOp \in {"load", "reset"})]_vars

----------------------------------------------------------------------
(* Emission of histories: each entry is extended with the observation of the
   state reached (computed here from the final state only for the last entry,
   therefore the history variable carries the observation itself). *)
HistConstraint == Len(hist) <= MaxLen /\ Len(stack) <= MaxNest
Emit == (Len(hist) = MaxLen) => PrintT(<<"HIST", hist>>)
EmitSim == (TLCGet("level") = MaxLen + 1) => PrintT(<<"HIST", hist>>)
DesignView == state
======================================================================
