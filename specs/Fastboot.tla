---------------------------- MODULE Fastboot ----------------------------
(* C16: fastboot command/response state machine and image transfer
   (openhtf.plugs.usb.fastboot_protocol.{FastbootProtocol, FastbootCommands}).

   The host sends one command packet, then reads response packets until a
   terminating one.  A download additionally announces the size, waits for
   DATA(size), sends the image in chunks of at most K bytes and waits for the
   final OKAY.  The device is a script of response packets; an exhausted script
   is a read timeout.

   Packets: <<"INFO", i>>, <<"OKAY", i>>, <<"FAIL", i>>, <<"DATA", n>>,
   <<"JUNK", i>> (unknown header). *)
EXTENDS Integers, Sequences, FiniteSets, TLC

CONSTANTS K,          \* chunk size in bytes
          Sizes,      \* image sizes to download
          Scripts,    \* device response scripts (sequences of packets)
          Cmds        \* simple commands: <<name, arg>> (arg "" = none)

VARIABLES mode,     \* "simple" | "download"
          cmd,      \* the command of this run
          size,     \* image size (download)
          script,   \* remaining device responses
          sent,     \* packets written by the host: <<"cmd", text>> | <<"data", offset, len>>
          infos,    \* INFO/OKAY/FAIL payloads handed to the info callback, in order
          prog,     \* progress callback calls: <<current, total>>
          orig,     \* the full device script (for emission)
          phase,    \* "start" "resp1" "data" "resp2" "done"
          result    \* <<"ok", payload>> | <<"error", class>>
vars == <<mode, cmd, size, script, sent, infos, prog, orig, phase, result>>

Init == /\ mode \in {"simple", "download"}
        /\ cmd \in Cmds /\ size \in Sizes /\ script \in Scripts
        /\ (mode = "simple" => size = 0) /\ (mode = "download" => cmd = <<"download", "">>)
        /\ orig = script
        /\ sent = <<>> /\ infos = <<>> /\ prog = <<>> /\ phase = "start" /\ result = <<"none", 0>>

(* "Every fastboot command is sent as a single command[:arg] packet";
   "announces download: plus the image size as 8 hex digits" *)
SendCommand ==
  /\ phase = "start"
  /\ sent' = Append(sent, IF mode = "simple" THEN <<"cmd", cmd[1], cmd[2]>>
                                            ELSE <<"cmd", "download", size>>)
  /\ phase' = "resp1"
  /\ UNCHANGED <<mode, cmd, size, script, infos, prog, result, orig>>

Expected == IF mode = "download" /\ phase = "resp1" THEN "DATA" ELSE "OKAY"

Finish(r) == /\ result' = r /\ phase' = "done"

(* one response packet *)
Response ==
  /\ phase \in {"resp1", "resp2"}
  /\ IF script = <<>>
     THEN /\ Finish(<<"error", "UsbReadFailedError">>) /\ UNCHANGED <<script, infos, sent, prog>>
     ELSE LET p == Head(script) IN
          /\ script' = Tail(script)
          /\ UNCHANGED <<sent, prog>>
          /\ CASE p[1] = "INFO" ->      \* "INFO packets are forwarded to the callback in order"
                    /\ infos' = Append(infos, p) /\ UNCHANGED <<phase, result>>
               [] p[1] = "FAIL" ->      \* "FAIL raises a remote-failure error carrying the device text"
                    /\ infos' = Append(infos, p) /\ Finish(<<"error", "FastbootRemoteFailureError", p[2]>>)
               [] p[1] \in {"OKAY", "DATA"} /\ p[1] # Expected ->
                    \* "an out-of-place DATA/OKAY raises a state-mismatch error"
                    /\ UNCHANGED infos /\ Finish(<<"error", "FastbootStateMismatchError">>)
               [] p[1] = "OKAY" /\ Expected = "OKAY" ->
                    /\ infos' = Append(infos, p) /\ Finish(<<"ok", p[2]>>)
               [] p[1] = "DATA" /\ Expected = "DATA" ->
                    /\ UNCHANGED infos
                    /\ IF p[2] = 1      \* 1: the device announces exactly `size`; 0: another size
                       THEN phase' = "data" /\ UNCHANGED result
                       ELSE \* "otherwise a transfer error and no bytes"
                            Finish(<<"error", "FastbootTransferError">>)
               [] OTHER ->              \* "any other header an invalid-response error"
                    /\ UNCHANGED infos /\ Finish(<<"error", "FastbootInvalidResponseError">>)
  /\ UNCHANGED <<mode, cmd, size, orig>>

Min(a, b) == IF a < b THEN a ELSE b
Offset == LET ds == {i \in 1..Len(sent) : sent[i][1] = "data"} IN
          IF ds = {} THEN 0 ELSE LET l == CHOOSE i \in ds : \A j \in ds : j <= i IN sent[l][2] + sent[l][3]

(* "transmits exactly the image, in order, in chunks no larger than the
   configured chunk size, reporting cumulative progress" *)
SendChunk ==
  /\ phase = "data"
  /\ IF Offset = size
     THEN /\ phase' = "resp2" /\ UNCHANGED <<sent, prog>>
     ELSE LET n == Min(K, size - Offset) IN
          /\ sent' = Append(sent, <<"data", Offset, n>>)
          /\ prog' = Append(prog, <<Offset + n, size>>)
          /\ UNCHANGED phase
  /\ UNCHANGED <<mode, cmd, size, script, infos, result, orig>>

Next == SendCommand \/ Response \/ SendChunk
Spec == Init /\ [][Next]_vars

----------------------------------------------------------------------
DataPkts == {i \in 1..Len(sent) : sent[i][1] = "data"}
SinglePacketCommand == Cardinality({i \in 1..Len(sent) : sent[i][1] = "cmd"}) <= 1
                       /\ (sent # <<>> => sent[1][1] = "cmd")
ChunkAtMostK == \A i \in DataPkts : sent[i][3] <= K /\ sent[i][3] > 0
ExactImageInOrder == (phase \in {"resp2", "done"} /\ DataPkts # {} /\ result[1] # "error")
                        => Offset = size
Contiguous == \A i \in DataPkts : \A j \in DataPkts : (j > i /\ ~\E k \in DataPkts : i < k /\ k < j)
                                                      => sent[j][2] = sent[i][2] + sent[i][3]
NoBytesUnlessDataMatches == (DataPkts # {}) => mode = "download"
ProgressCumulative == \A i \in 1..Len(prog) : prog[i][2] = size /\ (i > 1 => prog[i][1] > prog[i-1][1])
OkOnlyAfterOkay == (phase = "done" /\ result[1] = "ok") => infos # <<>> /\ infos[Len(infos)][1] = "OKAY"

Emit == (phase = "done") => PrintT(<<"HIST", [mode |-> mode, cmd |-> cmd, size |-> size, script |-> orig, sent |-> sent,
                                                infos |-> infos, prog |-> prog, result |-> result]>>)
======================================================================
