CONSTANTS
  BodySteps = 2
  AtomicProbe = TRUE
SPECIFICATION Spec
INVARIANT KillBeforeStart
INVARIANT KillAfterBodyNoEffect
INVARIANT ConfinedToBody
INVARIANT NoPendingAfterFinish
INVARIANT FlagBeforeLockMeansNoBody
PROPERTY Termination
