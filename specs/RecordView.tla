---------------------------- MODULE RecordView ----------------------------
(* C10: the incrementally cached base-type view of a TestRecord versus the
   in-memory record, and the value-kind -> JSON-kind table.

   The in-memory record has seven growing lists; the view keeps one cached
   rendering per list that is appended to by the same add_* call.  ReadRecord
   returns the view; ViewCoherent says it equals the from-scratch rendering of
   the in-memory lists, in particular that every list is represented.

   Besides the lists the record has header fields that are simply assigned
   (dut_id by the trigger phase and again by later phases, outcome, end time,
   marginal) or grow without an add_* call (outcome_details, metadata keys);
   they are rendered anew on every read: SetHdr / ReadRecord, HeaderCoherent.
   Every history of MaxOps operations is emitted and replayed on a real
   TestRecord, each read compared with the rendering of a record rebuilt from
   scratch.

   The measurement part of the view (values, overrides, transforms, live view
   of the running phase) is specified in Measurement.tla (action Read). *)
EXTENDS Naturals, Sequences, FiniteSets, TLC

CONSTANTS MaxAdds,
          MaxOps     \* bound on the emitted histories (adds, header changes, reads)

Lists == {"phases", "subtests", "branches", "checkpoints", "diagnoses", "log_records"}

Hdrs == {"dut_id", "outcome", "end_time_millis", "marginal", "details", "meta"}
HdrVals(f) == IF f \in {"details", "meta"} THEN 0..2       \* number of entries (only grows)
              ELSE 0..2                                      \* 0 = None, 1 / 2 = two different values

VARIABLES mem,    \* [Lists -> Seq(item ids)]
          view,   \* [Lists -> Seq(item ids)] : cached renderings
          hdr,    \* [Hdrs -> value] : header fields of the in-memory record
          n,      \* number of add operations so far
          hist
vars == <<mem, view, hdr, n, hist>>

Init == /\ mem = [l \in Lists |-> <<>>] /\ view = [l \in Lists |-> <<>>] /\ n = 0 /\ hist = <<>>
        /\ hdr = [f \in Hdrs |-> 0]

Add(l) == /\ n < MaxAdds /\ Len(hist) < MaxOps
          /\ UNCHANGED hdr
          /\ mem' = [mem EXCEPT ![l] = Append(@, n + 1)]
          /\ view' = [view EXCEPT ![l] = Append(@, n + 1)]
          /\ n' = n + 1
          /\ hist' = Append(hist, <<"add", l>>)

Render(m) == m            \* from-scratch rendering of the in-memory lists
(* a header field is assigned (or, for the growing ones, extended by one entry) *)
SetHdr(f, v) == /\ Len(hist) < MaxOps /\ v # hdr[f]
                /\ (f \in {"details", "meta"} => v = hdr[f] + 1)
                /\ hdr' = [hdr EXCEPT ![f] = v]
                /\ hist' = Append(hist, <<"set", f, v>>)
                /\ UNCHANGED <<mem, view, n>>

ReadRecord == /\ hist # <<>> /\ hist[Len(hist)][1] # "read" /\ Len(hist) < MaxOps
              /\ hist' = Append(hist, <<"read", view, hdr>>)      \* what a read returns: cached lists, fresh header
              /\ UNCHANGED <<mem, view, hdr, n>>

Next == (\E l \in Lists : Add(l)) \/ ReadRecord \/ (\E f \in Hdrs : \E v \in HdrVals(f) : SetHdr(f, v))
Spec == Init /\ [][Next]_vars

ViewCoherent == \A l \in Lists : view[l] = Render(mem)[l]
EveryListRepresented == DOMAIN view = Lists
\* every read returns the header as it is at that moment
HeaderCoherent == \A i \in 1..Len(hist) : hist[i][1] = "read" =>
                    \A f \in Hdrs : hist[i][3][f] =
                      (LET sets == {j \in 1..(i - 1) : hist[j][1] = "set" /\ hist[j][2] = f} IN
                        IF sets = {} THEN 0 ELSE hist[CHOOSE j \in sets : \A k \in sets : k <= j][3])
ListsOnlyGrow == [][\A l \in Lists : Len(mem'[l]) >= Len(mem[l])]_vars

----------------------------------------------------------------------
(* Value kinds of measurement values and what they become in JSON.
   "strict JSON (no NaN/Infinity tokens unless allow_nan) that decodes to the
   same structure (tuples as lists)" *)
Scalars == {"none", "bool", "int", "bigint", "float", "negzero", "nan", "inf", "ninf", "str", "enum"}
Containers == {"scalar", "list", "tuple", "dict", "dimvalue"}

BaseKind(k, allowNan) ==     \* kind in the base-type rendering
  CASE k \in {"nan", "inf", "ninf"} -> IF allowNan THEN k ELSE "str"
    [] k = "enum" -> "str"
    [] k = "negzero" -> "float"
    [] k = "bigint" -> "int"
    [] OTHER -> k

\* the set of JSON token kinds the value may become.  With allow_nan the
\* non-finite floats *may* be written as NaN/Infinity tokens (the statement
\* permits them, it does not require them); without it they must not.
JsonToken(k, allowNan) ==
  CASE BaseKind(k, FALSE) = "none" -> {"null"}
    [] BaseKind(k, FALSE) = "bool" -> {"boolean"}
    [] BaseKind(k, FALSE) \in {"int", "float"} -> {"number"}
    [] k \in {"nan", "inf", "ninf"} -> IF allowNan THEN {"string", "nonstandard"} ELSE {"string"}
    [] BaseKind(k, FALSE) = "str" -> {"string"}

JsonContainer(c) == CASE c \in {"list", "tuple", "dimvalue"} -> "array" [] c = "dict" -> "object"
                      [] c = "scalar" -> "none"

StrictUnlessAllowed == \A k \in Scalars : "nonstandard" \notin JsonToken(k, FALSE)
Table == {[k |-> k, c |-> c, allow |-> a, base |-> BaseKind(k, a), tok |-> JsonToken(k, a),
           cont |-> JsonContainer(c)] : k \in Scalars, c \in Containers, a \in BOOLEAN}
EmitTable == (n = 0 /\ hist = <<>>) => PrintT(<<"TABLE", Table>>)
EmitHist == (Len(hist) = MaxOps /\ \E i \in 1..Len(hist) : hist[i][1] = "read") => PrintT(<<"HIST", hist>>)
======================================================================
