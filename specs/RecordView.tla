---------------------------- MODULE RecordView ----------------------------
(* C10: the incrementally cached base-type view of a TestRecord versus the
   in-memory record, and the value-kind -> JSON-kind table.

   The in-memory record has seven growing lists; the view keeps one cached
   rendering per list that is appended to by the same add_* call.  ReadRecord
   returns the view; ViewCoherent says it equals the from-scratch rendering of
   the in-memory lists, in particular that every list is represented.

   The measurement part of the view (values, overrides, transforms, live view
   of the running phase) is specified in Measurement.tla (action Read). *)
EXTENDS Naturals, Sequences, FiniteSets, TLC

CONSTANTS MaxAdds

Lists == {"phases", "subtests", "branches", "checkpoints", "diagnoses", "log_records"}

VARIABLES mem,    \* [Lists -> Seq(item ids)]
          view,   \* [Lists -> Seq(item ids)] : cached renderings
          n,      \* number of add operations so far
          hist
vars == <<mem, view, n, hist>>

Init == /\ mem = [l \in Lists |-> <<>>] /\ view = [l \in Lists |-> <<>>] /\ n = 0 /\ hist = <<>>

Add(l) == /\ n < MaxAdds
          /\ mem' = [mem EXCEPT ![l] = Append(@, n + 1)]
          /\ view' = [view EXCEPT ![l] = Append(@, n + 1)]
          /\ n' = n + 1
          /\ hist' = Append(hist, <<"add", l>>)

Render(m) == m            \* from-scratch rendering of the in-memory lists
ReadRecord == /\ hist # <<>> /\ hist[Len(hist)][1] # "read"
              /\ hist' = Append(hist, <<"read", view>>)
              /\ UNCHANGED <<mem, view, n>>

Next == (\E l \in Lists : Add(l)) \/ ReadRecord
Spec == Init /\ [][Next]_vars

ViewCoherent == \A l \in Lists : view[l] = Render(mem)[l]
EveryListRepresented == DOMAIN view = Lists
ListsOnlyGrow == [][\A l \in Lists : Len(mem'[l]) >= Len(mem[l])]_vars

----------------------------------------------------------------------
(* Value kinds of measurement values and what they become in JSON.
   "strict JSON (no NaN/Infinity tokens unless allow_nan) that decodes to the
   same structure (tuples as lists)" *)
Scalars == {"none", "bool", "int", "bigint", "float", "negzero", "nan", "inf", "ninf", "str", "enum"}
Containers == {"scalar", "list", "tuple", "dict", "dimvalue"}

BaseKind(k, allowNan) ==     \* kind in the base-type rendering
  CASE k \in {"nan", "inf", "ninf"} -> IF allowNan THEN k ELSE "str"
    [] k = "enum" -> "str"
    [] k = "negzero" -> "float"
    [] k = "bigint" -> "int"
    [] OTHER -> k

\* the set of JSON token kinds the value may become.  With allow_nan the
\* non-finite floats *may* be written as NaN/Infinity tokens (the statement
\* permits them, it does not require them); without it they must not.
JsonToken(k, allowNan) ==
  CASE BaseKind(k, FALSE) = "none" -> {"null"}
    [] BaseKind(k, FALSE) = "bool" -> {"boolean"}
    [] BaseKind(k, FALSE) \in {"int", "float"} -> {"number"}
    [] k \in {"nan", "inf", "ninf"} -> IF allowNan THEN {"string", "nonstandard"} ELSE {"string"}
    [] BaseKind(k, FALSE) = "str" -> {"string"}

JsonContainer(c) == CASE c \in {"list", "tuple", "dimvalue"} -> "array" [] c = "dict" -> "object"
                      [] c = "scalar" -> "none"

StrictUnlessAllowed == \A k \in Scalars : "nonstandard" \notin JsonToken(k, FALSE)
Table == {[k |-> k, c |-> c, allow |-> a, base |-> BaseKind(k, a), tok |-> JsonToken(k, a),
           cont |-> JsonContainer(c)] : k \in Scalars, c \in Containers, a \in BOOLEAN}
EmitTable == (n = 0 /\ hist = <<>>) => PrintT(<<"TABLE", Table>>)
EmitHist == (n = MaxAdds) => PrintT(<<"HIST", hist>>)
======================================================================
