"""TLA+ value syntax <-> Python values.

parse(text): TLC's printed values (records, sequences, sets, functions written
with :> and @@, strings, integers, booleans, model values) -> Python.
  record   -> dict            sequence -> list
  set      -> list tagged as TlaSet (a list subclass)
  function -> dict (keys converted with str() unless all keys are ints 1..n,
              then a list)
to_tla(obj): Python -> TLA+ literal text (dict -> record, list/tuple ->
sequence, set/frozenset -> set, str, int, bool).
"""
import re


class TlaSet(list):
  pass


_TOK = re.compile(
    r'\s*(<<|>>|\|->|:>|@@|\[|\]|\{|\}|\(|\)|,|"(?:[^"\\]|\\.)*"|-?\d+|[A-Za-z_][A-Za-z0-9_!]*)')


def tokenize(text):
  pos = 0
  out = []
  n = len(text)
  while pos < n:
    m = _TOK.match(text, pos)
    if not m:
      if text[pos:].strip() == '':
        break
      raise ValueError('cannot tokenize TLA value at %r' % text[pos:pos + 40])
    out.append(m.group(1))
    pos = m.end()
  return out


def _unescape(s):
  body = s[1:-1]
  return (body.replace('\\\\', '\x00').replace('\\"', '"').replace('\\n', '\n')
          .replace('\\t', '\t').replace('\x00', '\\'))


class _P:

  def __init__(self, toks):
    self.t = toks
    self.i = 0

  def peek(self):
    return self.t[self.i] if self.i < len(self.t) else None

  def eat(self, tok=None):
    t = self.t[self.i]
    if tok is not None and t != tok:
      raise ValueError('expected %r got %r at token %d' % (tok, t, self.i))
    self.i += 1
    return t

  def value(self):
    t = self.eat()
    if t == '<<':
      out = []
      while self.peek() != '>>':
        out.append(self.value())
        if self.peek() == ',':
          self.eat()
      self.eat('>>')
      return out
    if t == '{':
      out = TlaSet()
      while self.peek() != '}':
        out.append(self.value())
        if self.peek() == ',':
          self.eat()
      self.eat('}')
      return out
    if t == '[':
      out = {}
      while self.peek() != ']':
        k = self.eat()
        self.eat('|->')
        out[k] = self.value()
        if self.peek() == ',':
          self.eat()
      self.eat(']')
      return out
    if t == '(':
      pairs = []
      while True:
        k = self.value()
        self.eat(':>')
        v = self.value()
        pairs.append((k, v))
        if self.peek() == '@@':
          self.eat()
          continue
        break
      self.eat(')')
      keys = [k for k, _ in pairs]
      if all(isinstance(k, int) for k in keys) and sorted(keys) == list(
          range(1, len(keys) + 1)):
        d = dict(pairs)
        return [d[i] for i in range(1, len(keys) + 1)]
      return {(k if isinstance(k, str) else str(k)): v for k, v in pairs}
    if t.startswith('"'):
      return _unescape(t)
    if t == 'TRUE':
      return True
    if t == 'FALSE':
      return False
    if re.fullmatch(r'-?\d+', t):
      return int(t)
    return t  # model value / identifier


def parse(text):
  p = _P(tokenize(text))
  v = p.value()
  if p.i != len(p.t):
    raise ValueError('trailing tokens after TLA value: %r' % p.t[p.i:p.i + 5])
  return v


def parse_many(text, marker):
  """Finds every printed tuple <<"marker", ...>> in TLC output (bracket
  matching, tolerant of multi-line pretty printing) and returns the parsed
  tuples minus the marker."""
  out = []
  needle = re.compile(r'<<\s*"%s"' % re.escape(marker))
  pos = 0
  while True:
    m = needle.search(text, pos)
    if not m:
      break
    i = m.start()
    depth = 0
    j = i
    in_str = False
    while j < len(text):
      c = text[j]
      if in_str:
        if c == '\\':
          j += 1
        elif c == '"':
          in_str = False
      else:
        if c == '"':
          in_str = True
        elif text.startswith('<<', j):
          depth += 1
          j += 1
        elif text.startswith('>>', j):
          depth -= 1
          j += 1
          if depth == 0:
            break
      j += 1
    else:
      raise ValueError('unterminated %s tuple in TLC output' % marker)
    out.append(parse(text[i:j + 1])[1:])
    pos = j + 1
  return out


def to_tla(o):
  if isinstance(o, bool):
    return 'TRUE' if o else 'FALSE'
  if isinstance(o, int):
    return str(o)
  if isinstance(o, str):
    return '"' + o.replace('\\', '\\\\').replace('"', '\\"') + '"'
  if isinstance(o, dict):
    if not o:
      raise ValueError('empty record has no TLA+ literal')
    return '[' + ', '.join('%s |-> %s' % (k, to_tla(v)) for k, v in o.items()) + ']'
  if isinstance(o, (set, frozenset, TlaSet)):
    return '{' + ', '.join(sorted(to_tla(x) for x in o)) + '}'
  if isinstance(o, (list, tuple)):
    return '<<' + ', '.join(to_tla(x) for x in o) + '>>'
  raise TypeError('no TLA+ literal for %r' % (o,))


def split_prints(text, marker, nchunks):
  """Splits TLC output into <= nchunks pieces, each starting at a printed
  <<"marker", ...>> tuple, so that pieces can be parsed in parallel."""
  needle = re.compile(r'<<\s*"%s"' % re.escape(marker))
  starts = [m.start() for m in needle.finditer(text)]
  if not starts:
    return []
  per = max(1, (len(starts) + nchunks - 1) // nchunks)
  cuts = starts[::per] + [len(text)]
  return [text[cuts[i]:cuts[i + 1]] for i in range(len(cuts) - 1)]
