"""Deterministic cooperative scheduler with virtual time for real
threading-based code (stdlib entry points are patched while a run is active;
no openhtf function or class is replaced).

Exactly one controlled thread runs at a time.  Every synchronisation operation
of a controlled thread (lock acquire *and* release, Event set/clear/is_set when
`trace_events`, thread start/join, sleep, explicit `point()`) is a scheduling
point.  When every thread is blocked the virtual clock jumps to the earliest
deadline; if there is none the run is a Deadlock.

The scheduling decision is taken by the thread that yields (there is no
controller thread), so the `sequential` policy costs nothing when the running
thread stays enabled.
"""
import _thread
import ctypes
import queue as _queue_mod
import sys
import threading
import time

_real_allocate = _thread.allocate_lock
_real_time, _real_mono, _real_sleep = time.time, time.monotonic, time.sleep
_real_start = threading.Thread.start
_real_join = threading.Thread.join
_real_alive = threading.Thread.is_alive
_real_Lock, _real_RLock, _real_Event = threading.Lock, threading.RLock, threading.Event
_real_setasync = ctypes.pythonapi.PyThreadState_SetAsyncExc


class Deadlock(Exception):
  pass


class StepBudget(Exception):
  pass


class ReplayDivergence(Exception):
  pass


class HarnessStall(Exception):
  """No controlled thread made progress for a long real time: a bug of the
  harness (or a blocking call the scheduler does not virtualise), never a
  verdict about the code under test."""


class _Abandon(BaseException):
  """Raised inside leftover threads when a run is torn down."""


class TState:

  def __init__(self, name, idx):
    self.name = name
    self.idx = idx
    self.sem = _real_allocate()
    self.sem.acquire()
    self.cond = None          # callable -> bool, or None (= runnable)
    self.wake_at = None
    self.why = 'start'
    self.done = False
    self.pending_exc = None
    self.result = True
    self.thread = None
    self.deliver = True       # may a pending async exception be raised at this point?
    self.pending_call = None  # callable to run in this thread at its next point (simulated signal handler)
    self.short = False        # blocked in a short timed wait (a polling interval): may expire early
    self.expiring = False     # offered to the policy as "let its short wait expire now"

  @property
  def label(self):
    return self.name + '~' if self.expiring else self.name


# ---- policies ---------------------------------------------------------

class Sequential:
  """Keep running the current thread while it is enabled, else lowest index."""

  def choose(self, sched, enabled, current):
    for s in enabled:
      if s is current:
        return s
    return enabled[0]


class Replay:
  """Follows a recorded list of decisions (thread names); after the list is
  exhausted behaves like `fallback`."""
  handles_expiry = True

  def __init__(self, decisions, fallback=None):
    self.decisions = list(decisions)
    self.i = 0
    self.fallback = fallback or Sequential()

  def choose(self, sched, enabled, current):
    if len(enabled) == 1 and not enabled[0].expiring:
      return enabled[0]
    if self.i < len(self.decisions):
      want = self.decisions[self.i]
      self.i += 1
      for s in enabled:
        if s.label == want:
          return s
      raise ReplayDivergence('wanted %s, enabled %s' % (want, [s.label for s in enabled]))
    return self.fallback.choose(sched, [s for s in enabled if not s.expiring], current)


class RandomPolicy:

  def __init__(self, rng, switch_prob=0.2):
    self.rng = rng
    self.p = switch_prob

  def choose(self, sched, enabled, current):
    if len(enabled) == 1:
      return enabled[0]
    if current in enabled and self.rng.random() > self.p:
      return current
    return enabled[self.rng.randrange(len(enabled))]


class Sched:

  def __init__(self, policy=None, max_steps=200000, trace_events=False,
               quiet_logging=True, start_time=1000.0, max_vtime=200000.0, early_expiry=0.0,
               trace_files=(), free_wake=False):
    self.policy = policy or Sequential()
    # free_wake: when virtual time had to advance, every thread was blocked - which of the threads due at
    # that instant runs first is then not a preemption of anybody (the policy is told there is no current thread)
    self.free_wake = free_wake
    self.now = start_time
    self.t0 = start_time
    self.max_vtime = max_vtime
    # Virtual time normally advances only when no thread can run (threads are
    # fast compared with timeouts).  For polling intervals that assumption is
    # weak: with early_expiry = x, a timed wait of at most x seconds may also
    # expire while other threads are runnable - offered to policies that set
    # handles_expiry as the extra alternative "<name>~" (the DFS counts it as a
    # preemption).
    self.early_expiry = early_expiry
    # Statement-level scheduling points: every line executed by a controlled
    # thread in a source file whose path ends with one of these suffixes is a
    # scheduling point (sys.settrace).  For check-then-act code that touches no
    # synchronisation primitive.
    self.trace_files = tuple(trace_files)
    self.states = []
    self.by_thread = {}
    self.current = None
    self.steps = 0
    self.max_steps = max_steps
    self.active = False
    self.trace_events = trace_events
    self.quiet_logging = quiet_logging
    self.decisions = []         # (enabled names, chosen, previous) where >1 enabled
    self.log = []               # optional event log written by primitives / harness
    self.failure = None
    self.finished = _real_allocate()
    self.finished.acquire()
    self.sigint = None          # optional callable(sched) -> None invoked at points of main
    self.nevents = 0

  # ---- helpers used by controlled threads
  def me(self):
    return self.by_thread.get(threading.current_thread())

  def emit(self, *ev):
    self.log.append(ev)

  def _enabled(self):
    en = []
    for s in self.states:
      if s.done:
        continue
      if ((s.pending_exc is not None or s.pending_call is not None) and s.deliver) or \
          s.cond is None or s.cond() or (s.wake_at is not None and s.wake_at <= self.now):
        # (a timed wait whose time has come stays runnable until it runs, also when another thread due at
        # the same instant was picked first)
        en.append(s)
    return en

  def _pick_next(self, cur):
    """Returns the next state to run (possibly `cur`), advancing virtual time
    if nobody is enabled.  Sets failure and returns None on deadlock."""
    self.steps += 1
    if self.steps > self.max_steps:
      self.failure = StepBudget('step budget %d exhausted' % self.max_steps)
      return None
    en = self._enabled()
    timed_out = False
    if not en:
      timed = [s for s in self.states if not s.done and s.wake_at is not None]
      if not timed:
        live = [s for s in self.states if not s.done]
        if not live:
          return None
        self.failure = Deadlock([(s.name, s.why) for s in live])
        return None
      self.now = max(self.now, min(s.wake_at for s in timed))
      if self.now - self.t0 > self.max_vtime:
        self.failure = StepBudget('virtual time budget exhausted (%.0f s): the run does not finish' % self.max_vtime)
        return None
      en = [s for s in timed if s.wake_at <= self.now]
      timed_out = True
    for s in self.states:
      s.expiring = False
    exp = []
    if self.early_expiry and not timed_out and getattr(self.policy, 'handles_expiry', False):
      exp = [s for s in self.states if not s.done and s.short and s.wake_at is not None and s not in en]
      for s in exp:
        s.expiring = True
    if len(en) == 1 and not exp:
      nxt = en[0]
    else:
      try:
        nxt = self.policy.choose(self, en + exp, cur if (cur is not None and not cur.done and
                                                        not (timed_out and self.free_wake)) else None)
      except Exception as e:  # pylint: disable=broad-except
        self.failure = e      # e.g. ReplayDivergence: end the run, do not kill a controlled thread
        return None
      self.decisions.append(([s.label for s in en + exp], nxt.label,
                             cur.name if cur is not None and not cur.done and
                             not (timed_out and self.free_wake) else None))
    if nxt.expiring:
      self.now = max(self.now, nxt.wake_at)
      timed_out = True
    for s in self.states:
      s.expiring = False
    if timed_out or (nxt.wake_at is not None and nxt.wake_at <= self.now):
      nxt.result = bool(nxt.cond is None or nxt.cond())
    else:
      nxt.result = True
    return nxt

  def _handoff(self, cur):
    """Returns 'self' if `cur` keeps running, 'other' if another thread was
    woken, 'over' if the run ended.  The caller must act on the return value
    only: once the other thread's semaphore is released it runs concurrently
    with the tail of this function and may already have handed control back
    (re-reading self.current here was a real race: the token released for
    `cur` stayed unconsumed and two threads ran at once later on)."""
    nxt = self._pick_next(cur)
    if nxt is None:
      # run over (all done) or failure: wake the harness
      self._teardown_all(cur)
      return 'over'
    self.current = nxt
    if nxt is cur:
      return 'self'
    nxt.sem.release()
    return 'other'

  def _teardown_all(self, cur):
    self.active_end = True
    try:
      self.finished.release()
    except RuntimeError:
      pass

  def yield_(self, why, cond=None, timeout=None, deliver=True):
    """Scheduling point.  Returns True if cond is satisfied (or None), False on
    virtual timeout.  deliver=False: a pending asynchronous exception is not
    raised here (used where CPython could not raise it either: re-acquiring a
    condition's lock after a wait)."""
    st = self.me()
    if st is None or not self.active:
      return True
    wake_at = None if timeout is None else self.now + max(timeout, 0)
    while True:
      st.deliver = deliver
      st.cond = cond
      st.wake_at = wake_at
      st.short = bool(timeout is not None and self.early_expiry and timeout <= self.early_expiry)
      st.why = why
      if self._handoff(st) != 'self':
        st.sem.acquire()
        if not self.active:
          raise _Abandon()
      st.cond = None
      st.wake_at = None
      st.short = False
      if deliver:
        exc, st.pending_exc = st.pending_exc, None
        if exc is not None:
          raise exc()
        fn, st.pending_call = st.pending_call, None
        if fn is not None:
          fn()                      # simulated signal handler: runs in this thread, may raise
          if cond is not None and not cond() and (wake_at is None or self.now < wake_at):
            continue                # the interrupted wait resumes
          return bool(cond is None or cond())
      return st.result

  def _tracer(self):
    files = self.trace_files
    sched = self

    def local(frame, event, arg):
      if event == 'line' and sched.active:
        sched.yield_('line %s:%d' % (frame.f_code.co_name, frame.f_lineno), deliver=False)
      return local

    def glob(frame, event, arg):
      if event == 'call' and frame.f_code.co_filename.endswith(files):
        return local
      return None
    return glob

  def interrupt(self, idx, fn):
    """Arrange for fn() to run in thread number idx (0 = main) at its next
    scheduling point, like a signal handler would."""
    self.states[idx].pending_call = fn

  # ---- run
  def run(self, main_fn, name='main'):
    global SCHED
    install(self)
    self.active = True
    try:
      t = threading.Thread(target=main_fn, name=name, daemon=True)
      st = self._register(t)
      _real_start(t)
      self.current = st
      st.sem.release()
      last_steps = -1
      while not self.finished.acquire(timeout=30):
        if self.steps == last_steps:      # 30 s of real time without a single step
          import faulthandler
          faulthandler.dump_traceback(all_threads=True)
          self.failure = HarnessStall('no scheduling step for 30 s of real time (step %d)' % self.steps)
          break
        last_steps = self.steps
    finally:
      self.active = False
      uninstall()
      # release leftover threads so they can unwind, and wait for them: they
      # would otherwise run concurrently with the next scheduler run and touch
      # process-global state of the code under test
      left = [s for s in self.states if not s.done]
      for s in left:
        try:
          s.sem.release()
        except RuntimeError:
          pass
      for s in left:
        if s.thread is not None and s.thread is not threading.current_thread():
          _real_join(s.thread, 2.0)
    if self.failure is not None:
      self.failure.sched = self
      raise self.failure

  def _register(self, t):
    st = TState(t.name, len(self.states))
    st.thread = t
    self.states.append(st)
    self.by_thread[t] = st
    orig_run = t.run
    sched = self

    def run_wrapper():
      st.sem.acquire()
      try:
        if not sched.active:
          return
        exc, st.pending_exc = st.pending_exc, None
        if exc is None:
          if sched.trace_files:
            sys.settrace(sched._tracer())
          orig_run()
      except _Abandon:
        pass
      except SystemExit:
        pass
      finally:
        st.done = True
        if sched.active:
          if st.idx == 0:
            sched._teardown_all(st)   # the main thread returned: the run is over
          else:
            sched._handoff(st)

    t.run = run_wrapper
    return st


SCHED = None


def controlled():
  s = SCHED
  return s is not None and s.active and s.me() is not None


def point(why='point'):
  """Explicit scheduling point for harness code (bodies, fakes)."""
  if controlled():
    SCHED.yield_(why)


# ---- cooperative primitives ------------------------------------------

class CoopLock:

  def __init__(self, quiet=False, label=None):
    self.owner = None
    self.quiet = quiet
    self.label = label

  def acquire(self, blocking=True, timeout=-1):
    s = SCHED
    if s is None or not s.active or s.me() is None:
      # used by an uncontrolled thread (or after the run): best effort
      if self.owner is None:
        self.owner = 'uncontrolled'
        return True
      return False
    deliver = sys._getframe(1).f_code.co_name != '_acquire_restore'
    if not self.quiet:
      s.yield_('lock.acquire', deliver=deliver)
    if self.owner is None:
      self.owner = s.me()
      if self.label:
        s.emit('acq', self.label, self.owner.name)
      return True
    if not blocking:
      return False
    ok = s.yield_('lock.wait held-by=%s' % getattr(self.owner, 'name', self.owner), cond=lambda: self.owner is None,
                  timeout=None if timeout is None or timeout < 0 else timeout,
                  deliver=deliver)
    if ok:
      self.owner = s.me()
      if self.label:
        s.emit('acq', self.label, self.owner.name)
    return ok

  def release(self):
    if self.owner is None:
      raise RuntimeError('release unlocked lock')
    if self.label and controlled():
      SCHED.emit('rel', self.label, getattr(self.owner, 'name', str(self.owner)))
    self.owner = None
    if not self.quiet and controlled():
      # Condition.wait releases its lock in _release_save just before the
      # try/finally that restores it: an asynchronous exception raised in that
      # gap (a stdlib artefact, a few bytecodes wide) would make the enclosing
      # `with cond:` release an unlocked lock.  Not delivered here.
      SCHED.yield_('lock.release', deliver=sys._getframe(1).f_code.co_name != '_release_save')

  def locked(self):
    return self.owner is not None

  __enter__ = acquire

  def __exit__(self, *a):
    self.release()

  def _at_fork_reinit(self):
    self.owner = None


def _caller_is_logging(depth=2):
  f = sys._getframe(depth)
  n = 0
  while f is not None and n < 6:
    fn = f.f_code.co_filename
    if fn.endswith('logging/__init__.py') or fn.endswith('logging/handlers.py'):
      return True
    f = f.f_back
    n += 1
  return False


def _in_threading_init():
  f = sys._getframe(2)
  # Anything threading.py does on behalf of a Thread object itself (_started
  # event, its condition waiters) stays real.
  while f is not None:
    fn = f.f_code.co_filename
    if fn.endswith('threading.py'):
      if isinstance(f.f_locals.get('self'), threading.Thread):
        return True
    elif not fn.endswith('vf/sched.py'):
      return False
    f = f.f_back
  return False


def Lock():
  if controlled() and not _in_threading_init():
    return CoopLock(quiet=SCHED.quiet_logging and _caller_is_logging())
  return _real_allocate()


def RLock():
  if controlled():
    return threading._PyRLock()
  return _real_RLock()


class CoopEvent(_real_Event):
  """threading.Event created by a controlled thread.  Its hash is its creation
  index within the run, so that sets of events (e.g. the WeakSet of update
  events) iterate in the same order in every run - object addresses would make
  schedules irreproducible.  With `trace_events` the flag operations are
  scheduling points as well (flag reads are the only trace some protocols
  leave)."""

  def __init__(self):
    _real_Event.__init__(self)
    s = SCHED
    s.nevents += 1
    self._seq = s.nevents
    self._yield = s.trace_events

  def __hash__(self):
    return self._seq

  def __eq__(self, other):
    return self is other

  def is_set(self):
    if self._yield and controlled():
      SCHED.yield_('event.is_set')
    return _real_Event.is_set(self)

  isSet = is_set

  def set(self):
    # the 'set' event is logged at the flag write itself (under the event's
    # condition lock), so that its position in the log is the linearization
    # point of the set
    with self._cond:
      self._flag = True
      if controlled():
        SCHED.emit('set', id(self))
      self._cond.notify_all()

  def clear(self):
    _real_Event.clear(self)
    if self._yield and controlled():
      SCHED.yield_('event.clear')


def Event():
  if controlled() and not _in_threading_init():
    return CoopEvent()
  return _real_Event()


def v_time():
  return SCHED.now if controlled() else _real_time()


def v_mono():
  return SCHED.now if controlled() else _real_mono()


def v_sleep(d):
  if controlled():
    SCHED.yield_('sleep', cond=lambda: False, timeout=max(d, 0))
  else:
    _real_sleep(d)


def t_start(self):
  if controlled():
    if self._started.is_set():
      raise RuntimeError('threads can only be started once')
    SCHED._register(self)
    _real_start(self)
    SCHED.yield_('thread.start')
  else:
    _real_start(self)


def t_alive(self):
  s = SCHED
  if s is not None and self in s.by_thread:
    return not s.by_thread[self].done
  return _real_alive(self)


def t_join(self, timeout=None):
  s = SCHED
  if controlled() and self in s.by_thread:
    st = s.by_thread[self]
    s.yield_('join', cond=lambda: st.done, timeout=timeout)
  elif s is not None and self in s.by_thread and not s.active:
    return
  else:
    _real_join(self, timeout)


class _AsyncExcShim:

  def __call__(self, tid, exc):
    tid = getattr(tid, 'value', tid)
    exc = getattr(exc, 'value', exc)
    s = SCHED
    if s is not None:
      known = False
      for t, st in s.by_thread.items():
        if t.ident == tid:     # OS thread ids are reused: look for the live one
          known = True
          if st.done:
            continue
          if exc is None:
            st.pending_exc = None
          else:
            st.pending_exc = exc
            s.emit('async_exc', st.name)
          return 1
      if known:
        return 0
    return _real_setasync(ctypes.c_long(tid), ctypes.py_object(exc))


_installed = False


def install(s):
  global SCHED, _installed
  if _installed:
    raise RuntimeError('scheduler already installed')
  SCHED = s
  _installed = True
  threading.Lock = Lock
  threading._allocate_lock = Lock
  threading.RLock = RLock
  threading.Event = Event
  threading.Thread.start = t_start
  threading.Thread.join = t_join
  threading.Thread.is_alive = t_alive
  time.time, time.monotonic, time.sleep = v_time, v_mono, v_sleep
  _queue_mod.time = v_mono
  threading._time = v_mono
  ctypes.pythonapi.PyThreadState_SetAsyncExc = _AsyncExcShim()


def uninstall():
  global SCHED, _installed
  threading.Lock = _real_Lock
  threading._allocate_lock = _real_allocate
  threading.RLock = _real_RLock
  threading.Event = _real_Event
  threading.Thread.start = _real_start
  threading.Thread.join = _real_join
  threading.Thread.is_alive = _real_alive
  time.time, time.monotonic, time.sleep = _real_time, _real_mono, _real_sleep
  _queue_mod.time = _real_mono
  threading._time = _real_mono
  ctypes.pythonapi.PyThreadState_SetAsyncExc = _real_setasync
  _installed = False
  # SCHED stays set so that leftover threads can see `active == False`


def run(main_fn, **kw):
  s = Sched(**kw)
  s.run(main_fn)
  return s
