"""Builds a real openhtf.Test from a program record of Executor.tla, runs it
with generated (scripted, self-logging) phase bodies and projects the result
onto the observation the specification emits."""
import enum
import logging
import sys
import threading
import time

import openhtf as htf
from openhtf.core import base_plugs
from openhtf.core import diagnoses_lib
from openhtf.core import monitors
from openhtf.core import phase_branches
from openhtf.core import phase_collections
from openhtf.core import phase_descriptor
from openhtf.core import phase_executor
from openhtf.core import test_record
from openhtf.util import configuration
from openhtf.util import console_output
from openhtf.util import threads

console_output.CLI_QUIET = True
_oh = logging.getLogger('openhtf')
_oh.addHandler(logging.NullHandler())
_oh.propagate = False
CONF = configuration.CONF


def reset_process_globals():
  """Bring openhtf's process-global registries back to the state of a fresh
  process.  A run that was abandoned by the scheduler (deadlock, step budget)
  never reaches its clean-up, and what it leaves behind (a record handler whose
  lock is still owned by a dead thread, a registered Test) would make the next
  run in this process behave differently."""
  from openhtf.util import logs
  lg = logging.getLogger(logs.LOGGER_PREFIX)
  for h in list(lg.handlers):
    if isinstance(h, logs.RecordHandler):
      lg.removeHandler(h)
  htf.Test.TEST_INSTANCES.clear()
  htf.Test.HANDLED_SIGINT_ONCE = False


class R(diagnoses_lib.DiagResultEnum):
  a = 'a'
  b = 'b'
  d = 'd'
  h = 'h'
  A = 'A'
  B = 'B'
  D = 'D'
  H = 'H'


class BodyError(Exception):
  pass


class FailureExc(Exception):
  pass


class DiagError(Exception):
  pass


class ValidatorError(Exception):
  pass


class PlugCtorError(Exception):
  pass


class ScriptExhausted(Exception):
  """The real executor invoked a body more often than the model did."""


class _OwnRange(object):
  """0 <= x <= 10, marginal within [0, 2] and [8, 10] - the limits of the in_range validator used elsewhere"""

  def __call__(self, value):
    return value is not None and 0 <= value <= 10

  def is_marginal(self, value):
    return value is not None and (0 <= value <= 2 or 8 <= value <= 10)

  def __str__(self):
    return 'own range 0..10'

  def __deepcopy__(self, memo):
    return self


def _raising_validator(value):
  raise ValidatorError('validator raises')


RES = {'C': None, 'F': htf.PhaseResult.FAIL_AND_CONTINUE, 'X': htf.PhaseResult.FAIL_SUBTEST,
       'K': htf.PhaseResult.SKIP, 'R': htf.PhaseResult.REPEAT, 'S': htf.PhaseResult.STOP}

COND = {'ALL': phase_branches.DiagnosisCondition.on_all,
        'ANY': phase_branches.DiagnosisCondition.on_any,
        'NOT_ANY': phase_branches.DiagnosisCondition.on_not_any,
        'NOT_ALL': phase_branches.DiagnosisCondition.on_not_all}


def _cond(c):
  return COND[c['on']](*[R[r] for r in sorted(c['rs'])])


class Ctx:
  """Per-run context: script to follow, logs written by bodies/plugs."""

  def __init__(self, script, hooks=None):
    self.script = {k: list(v) for k, v in script.items()}
    self.calls = []
    self.events = []           # unified, ordered: ('body', name, att) ('body_end', name)
                               # ('plug', op, cls, iid) ('tdiag', i) ('cb', i) ('diag', phase, i)
    self.plug_events = []      # ('new'|'fail'|'teardown', cls, iid)
    self.cur = {}              # phase name -> tokens of the running/last invocation
    self.att = {}
    self.test = None
    self.hooks = hooks or {}
    self.errors = []
    self.lock = threading.Lock()
    self.iid = 0
    self.aborters = []
    self.internal_slots = set()
    self.mon_calls = {}

  def next_tokens(self, name):
    q = self.script.get(name)
    if not q:
      self.errors.append('script exhausted for %s' % name)
      raise ScriptExhausted(name)
    return q.pop(0)


def _seen(rec):
  return [len(rec.phases), len(rec.subtests), len(rec.branches), len(rec.checkpoints)]


def make_body(ctx, node, is_td_hint=None):
  name = node['name']

  def body(test, **plugs):
    b, m, d = ctx.next_tokens(name)
    ctx.cur[name] = (b, m, d)
    ctx.att[name] = ctx.att.get(name, 0) + 1
    ctx.events.append(('body', name, ctx.att[name]))
    ctx.calls.append(dict(n=name, b=b, m=m, d=list(d), seen=_seen(test.test_record),
                          att=ctx.att[name],
                          pl={k: getattr(v, 'iid', None) for k, v in plugs.items()},
                          plcls={k: getattr(v, 'cid', None) for k, v in plugs.items()}))
    hook = ctx.hooks.get('body')
    try:
      if node.get('mon') and not node['plugs']:
        # the monitor has stored at least one sample before the body goes on (an UNSET monitor
        # measurement would fail the phase, which is not what is examined here)
        c0, deadline = ctx.mon_calls.get(name, 0), time.time() + 3
        while ctx.mon_calls.get(name, 0) < c0 + 2 and time.time() < deadline:
          time.sleep(0.125)
      return _body_rest(test, b, m, hook)
    finally:
      ctx.events.append(('body_end', name, ctx.att[name]))

  def _body_rest(test, b, m, hook):
    if hook:
      hook(ctx, name, test, b)
    if m == 'p':
      test.measurements.m = 5
    elif m == 'm':
      test.measurements.m = 1
    elif m == 'f':
      test.measurements.m = 20
    elif m == 'v':
      test.measurements.dv[1] = 1
    if b in RES:
      return RES[b]
    if b == 'E':
      raise BodyError('boom in %s' % name)
    if b == 'G':
      raise FailureExc('listed failure in %s' % name)
    if b == 'I':
      return 'not a PhaseResult'
    if b == 'J':
      return [False, 0, '', [], 0.0, {}][(len(name) + ctx.att[name]) % 6]
    if b == 'T':
      while True:
        time.sleep(1)
    if b == 'A':
      t = threading.Thread(target=ctx.test.abort_from_sig_int, name='aborter-%s' % name)
      ctx.aborters.append(t)
      t.start()
      # Only meaningful under the cooperative scheduler: a non-teardown body
      # is killed while it waits here (the kill is delivered at this scheduling
      # point); a teardown body is left alone, sees the abort call return and
      # continues.
      t.join()
      return None
    raise AssertionError('unknown behaviour token %r' % b)

  body.__name__ = name
  return body


def _diag_shape(ctx, key, codes):
  """How a diagnoser of this run hands over its diagnoses (a concretisation of
  the model's "failure diagnosis"): declared always_fail (the Diagnosis objects
  then carry no is_failure flag of their own) whenever every code of the run's
  script for this diagnoser is a failure code, and the result as a single
  Diagnosis, a list, a tuple or a generator."""
  fails = [c for c in codes if c not in ('0', '!')]
  always = bool(fails) and all(c.isupper() for c in fails)
  import zlib
  h = zlib.crc32(repr((key, sorted((k, repr(v)) for k, v in ctx.script.items()))).encode())
  return always and h % 5 != 0, ('one', 'list', 'gen', 'tuple')[h % 4]


def _deliver(diag, how):
  if how == 'one':
    return diag
  if how == 'list':
    return [diag]
  if how == 'tuple':
    return (diag,)
  return (d for d in [diag])


def make_diag(ctx, phase_name, i):
  codes = [t[2][i] for t in ctx.script.get(phase_name, []) if len(t) > 2 and len(t[2]) > i]
  always, how = _diag_shape(ctx, 'dg_%s_%d' % (phase_name, i), codes)
  # non-failure diagnoses of some diagnosers are internal: kept out of the test record's list, but
  # they reach the diagnoses store (branches, checkpoints, conditional validators) like any other
  import zlib
  internal = zlib.crc32(repr(('int', phase_name, i, sorted((k, repr(v)) for k, v in ctx.script.items()))).encode()) % 3 == 0
  if internal:
    ctx.internal_slots.add('diag:%s:%d' % (phase_name, i))

  def run(phase_record):
    code = ctx.cur[phase_name][2][i]
    ctx.calls.append(dict(n='diag:%s:%d' % (phase_name, i), b=code))
    ctx.events.append(('diag', phase_name, i))
    if code == '!':
      raise DiagError('diagnoser raises')
    if code == '0':
      return None
    if always:
      return _deliver(htf.Diagnosis(R[code], 'desc'), how)
    if internal and not code.isupper():
      return _deliver(htf.Diagnosis(R[code], 'desc', is_internal=True), how)
    return _deliver(htf.Diagnosis(R[code], 'desc', is_failure=code.isupper()), how)
  return diagnoses_lib.PhaseDiagnoser(R, name='dg_%s_%d' % (phase_name, i), run_func=run, always_fail=always)


def make_tdiag(ctx, i):
  codes = [t[0] for t in ctx.script.get('tdiag%d' % i, [])]
  always, how = _diag_shape(ctx, 'tdg_%d' % i, codes)

  def run(test_rec, store):
    b, _, _ = ctx.next_tokens('tdiag%d' % i)
    ctx.events.append(('tdiag', i))
    ctx.calls.append(dict(n='tdiag', b=b, m='', d=[], seen=_seen(test_rec), att=i, pl={}, plcls={}))
    if b == '!':
      raise DiagError('test diagnoser raises')
    if b == '0':
      return None
    if always:
      return _deliver(htf.Diagnosis(R[b], 'desc'), how)
    return _deliver(htf.Diagnosis(R[b], 'desc', is_failure=b.isupper()), how)
  return diagnoses_lib.TestDiagnoser(R, name='tdg_%d' % i, run_func=run, always_fail=always)


def make_plug(ctx, cid, bad, tdmode):
  def __init__(self):
    with ctx.lock:
      ctx.iid += 1
      self.iid = ctx.iid
    self.cid = cid
    if bad:
      ctx.plug_events.append(('fail', cid, self.iid))
      ctx.events.append(('plug', 'fail', cid, self.iid))
      raise PlugCtorError('constructor of %s raises' % cid)
    ctx.plug_events.append(('new', cid, self.iid))
    ctx.events.append(('plug', 'new', cid, self.iid))

  def tearDown(self):
    ctx.plug_events.append(('teardown', self.cid, self.iid, tdmode))
    ctx.events.append(('plug', 'teardown', self.cid, self.iid))
    hook = ctx.hooks.get('plug_teardown')
    if hook:
      hook(ctx, self.cid)
    if tdmode == 'raise':
      raise BodyError('tearDown of %s raises' % cid)
    if tdmode == 'hang':
      while True:
        time.sleep(1)
    if tdmode == 'edge':           # returns at the very moment plug_teardown_timeout_s (3 s in these runs) expires
      time.sleep(3)
    if tdmode == 'hardhang':       # blocks and cannot be killed: it has to be abandoned
      while True:
        try:
          time.sleep(1000)
        except BaseException:  # pylint: disable=broad-except
          pass

  # distinct plug classes may carry the same module and class name (made by a factory, nested in
  # different classes, reloaded): the classes, not their names, identify a plug
  return type('Plug_%s' % ('made' if cid in ('x', 'z') else cid), (base_plugs.BasePlug,),
              dict(__init__=__init__, tearDown=tearDown))


def build_phase(ctx, node, plugcls, timeout_s=None):
  o = node['opts']
  kw = dict(name=node['name'])
  if o['runif'] == 'true':
    kw['run_if'] = lambda: True
  elif o['runif'] == 'false':
    # "a false run_if": any value that is false in a condition (the callback's result is only tested)
    import zlib
    h = zlib.crc32(repr((node['name'], sorted((k, repr(v)) for k, v in ctx.script.items()))).encode())
    falsy = (False, None, 0, '', [], 0.0)[h % 6]
    kw['run_if'] = lambda: falsy
  elif o['runif'] == 'raise':
    def _raise():
      raise BodyError('run_if raises')
    kw['run_if'] = _raise
  if o['limit']:
    kw['repeat_limit'] = o['limit']
  if o['force']:
    kw['force_repeat'] = True
  if o['romf']:
    kw['repeat_on_measurement_fail'] = True
  if o['rot']:
    kw['repeat_on_timeout'] = True
  if o['somf']:
    kw['stop_on_measurement_fail'] = True
  if timeout_s is not None:
    kw['timeout_s'] = timeout_s
  fn = make_body(ctx, node)
  if node.get('mon') and not node['plugs']:
    def mon(test, _n=node['name']):
      ctx.mon_calls[_n] = ctx.mon_calls.get(_n, 0) + 1
      return ctx.mon_calls[_n]
    fn = monitors.monitors('mon', mon, poll_interval_ms=500)(fn)     # (virtual time: such programs run under the scheduler)
  ph = htf.PhaseOptions(**kw)(fn)
  mk = node.get('mk', 'none')
  if mk == 'scalar':
    import zlib
    h = zlib.crc32(repr(('mk', node['name'], sorted((k, repr(v)) for k, v in ctx.script.items()))).encode())
    if h % 2:
      # the same limits as a validator object of the test author's own (callable + is_marginal, nothing else),
      # on a phase derived with with_args(): a derived phase validates like the one it was derived from
      ph = htf.measures(htf.Measurement('m').with_validator(_OwnRange()))(ph).with_args(vf_label='derived')
    else:
      ph = htf.measures(htf.Measurement('m').in_range(
          0, 10, marginal_minimum=2, marginal_maximum=8))(ph)
  elif mk == 'dimraise':
    ph = htf.measures(htf.Measurement('dv').with_dimensions('x').with_validator(
        _raising_validator))(ph)
  nd = node.get('ndiag', 0)
  if nd:
    ph = htf.diagnose(*[make_diag(ctx, node['name'], i) for i in range(nd)])(ph)
  if node['plugs']:
    ph = htf.plug(**{'plug_%s' % c: plugcls[c] for c in sorted(node['plugs'])})(ph)
    if len(node['name']) % 2 == 0:
      # an argument bound with with_args() under the name of a requested plug: the plug instance wins
      # ("receives that same instance under the requested argument name")
      ph = ph.with_args(**{'plug_%s' % sorted(node['plugs'])[0]: 'shadowed-by-the-plug'})
  return ph


def build_node(ctx, node, plugcls, timeout_s=None):
  k = node['k']
  rec = lambda c: build_node(ctx, c, plugcls, timeout_s)
  if k == 'phase':
    return build_phase(ctx, node, plugcls, timeout_s)
  if k == 'seq':
    return phase_collections.PhaseSequence(tuple(rec(c) for c in node['ch']))
  if k == 'subtest':
    return phase_collections.Subtest(node['name'], *[rec(c) for c in node['ch']])
  if k == 'branch':
    return phase_branches.BranchSequence(_cond(node['cond']), *[rec(c) for c in node['ch']],
                                         name=node['name'])
  if k == 'group':
    def part(children, salt):
      built = [rec(c) for c in children]
      # a part consisting of one collection may be handed over as that collection itself
      # (PhaseGroup(main=Subtest(...)) instead of main=[Subtest(...)]): the same tree
      if len(children) == 1 and children[0]['k'] in ('subtest', 'branch', 'seq') and \
          (len(node['name']) + len(children[0]['name']) + salt) % 2 == 0:
        return built[0]
      return built or None
    return htf.PhaseGroup(setup=part(node['setup'], 0), main=part(node['main'], 1),
                          teardown=part(node['tdn'], 0), name=node['name'])
  if k == 'ckpt':
    action = htf.PhaseResult[node['action']]
    if node['kind'] == 'DIAG':
      return phase_branches.DiagnosisCheckpoint(node['name'], _cond(node['cond']), action=action)
    mk = {'LAST': phase_branches.PhaseFailureCheckpoint.last,
          'ALL': phase_branches.PhaseFailureCheckpoint.all_previous,
          'SUBTEST': phase_branches.PhaseFailureCheckpoint.subtest_previous}[node['kind']]
    return mk(node['name'], action=action)
  raise ValueError(k)


def result_kind(outcome):
  if outcome is None:
    return 'UNSET'
  r = outcome.phase_result
  if r is None:
    return 'TIMEOUT'
  if isinstance(r, htf.PhaseResult):
    return r.name
  if isinstance(r, phase_executor.ExceptionInfo):
    return 'GEXC' if issubclass(r.exc_type, FailureExc) else 'EXC'
  if isinstance(r, threads.ThreadTerminationError):
    return 'KILL'
  return 'OTHER:%r' % (r,)


def project_record(rec):
  return dict(
      recs=[dict(name=p.name, oc=p.outcome.name if p.outcome else 'NONE',
                 res=result_kind(p.result), sub=p.subtest_name or '',
                 marg=bool(p.marginal),
                 dg=[r.value for r in p.diagnosis_results],
                 fdg=[r.value for r in p.failure_diagnosis_results]) for p in rec.phases],
      subs=[dict(name=s.name, oc=s.outcome.name) for s in rec.subtests],
      brs=[dict(name=b.name, taken=bool(b.branch_taken)) for b in rec.branches],
      cks=[dict(name=c.name, res=result_kind(c.result), sub=c.subtest_name or '')
           for c in rec.checkpoints],
      diags=[dict(r=d.result.value, fail=bool(d.is_failure)) for d in rec.diagnoses],
      oc=rec.outcome.name if rec.outcome else 'NONE')


def script_from_calls(calls):
  script = {}
  for c in calls:
    key = ('tdiag%d' % c['att']) if c['n'] == 'tdiag' else c['n']
    script.setdefault(key, []).append((c['b'], c['m'], tuple(c['d'])))
  return script


def make_test(ctx, prog, timeout_s=None, callbacks=None):
  spec = prog['plugspec']
  plugcls = {c: make_plug(ctx, c, c in spec['bad'], spec['tdmode'].get(c, 'ok'))
             for c in sorted(spec['all'])}
  nodes = [build_node(ctx, c, plugcls, timeout_s) for c in prog['root']['ch']]
  test = htf.Test(*nodes)
  st = prog['set']
  kw = dict(stop_on_first_failure=bool(st['sof']))
  kw['failure_exceptions'] = [FailureExc] if st['fexc'] else []
  test.configure(**kw)
  if prog['tdiag']:
    test.add_test_diagnosers(*[make_tdiag(ctx, i + 1) for i in range(len(prog['tdiag']))])
  start = None
  if prog['start']['k'] != 'none':
    start = build_phase(ctx, prog['start'], plugcls, timeout_s)
  ctx.test = test
  return test, start


def run_program(prog, calls, hooks=None, timeout_s=None, policy=None, use_sched=False,
                **schedkw):
  """Executes the program following the behaviour script extracted from the
  model's `calls`; returns the observation.  With use_sched the whole run
  (construction included) happens under the cooperative scheduler with
  virtual time."""
  if not use_sched:
    return _run_program(prog, calls, hooks, timeout_s)
  from vf import sched
  box = {}

  def main():
    try:
      box['obs'] = _run_program(prog, calls, hooks, timeout_s)
    except BaseException as e:  # pylint: disable=broad-except
      box['exc'] = e
      raise

  s = sched.Sched(policy=policy, **schedkw)
  try:
    s.run(main)
  except (sched.Deadlock, sched.StepBudget) as e:
    return dict(oc='NO-RETURN', sched_failure='%s: %s' % (type(e).__name__, e),
                decisions=[d[1] for d in s.decisions], crashed=[], calls=[], errors=[])
  if 'obs' not in box:
    return dict(oc='NO-RETURN', sched_failure='main raised %r' % (box.get('exc'),),
                decisions=[d[1] for d in s.decisions], crashed=[], calls=[], errors=[])
  obs = box['obs']
  obs['decisions'] = [d[1] for d in s.decisions]
  obs['vtime'] = s.now
  obs['steps'] = s.steps
  return obs


def _run_program(prog, calls, hooks=None, timeout_s=None):
  reset_process_globals()
  ctx = Ctx(script_from_calls(calls), hooks)
  test, start = make_test(ctx, prog, timeout_s)
  out = []

  def cb(rec):
    ctx.events.append(('cb', len(out)))
    out.append(rec)
  test.add_output_callbacks(cb)
  crashed = []
  old_hook = threading.excepthook

  def hook(args):
    if isinstance(args.exc_value, ScriptExhausted):
      return
    if issubclass(args.exc_type, SystemExit) and getattr(args.thread, 'name', '').endswith('_MonitorThread'):
      return    # a killed monitor thread ends with ThreadTerminationError (a SystemExit): the normal way
    crashed.append('%s: %s' % (args.exc_type.__name__, args.exc_value))
  threading.excepthook = hook
  hang = any(v in ('hang', 'hardhang') for v in prog['plugspec']['tdmode'].values())
  CONF.load(allow_unset_measurements=bool(prog['set']['unset']),
            plug_teardown_timeout_s=3 if hang else 0, _override=True)
  try:
    try:
      ret = test.execute(test_start=start)
    except Exception as e:  # pylint: disable=broad-except
      # execute() itself failing is an observation (compared with the model), not a harness failure
      ret = 'raised %s' % type(e).__name__
      crashed.append('execute() raised %s: %s' % (type(e).__name__, e))
  finally:
    threading.excepthook = old_hook
    CONF.load(allow_unset_measurements=False, plug_teardown_timeout_s=0, _override=True)
  for t in ctx.aborters:
    t.join(5)
  obs = project_record(out[0]) if out else dict(oc='NO-RECORD')
  if out and ctx.hooks.get('record'):
    obs['record_hook'] = ctx.hooks['record'](out[0])
  obs['ret'] = ret
  obs['calls'] = [c for c in ctx.calls if not c['n'].startswith('diag:')]
  obs['dcalls'] = [c for c in ctx.calls if c['n'].startswith('diag:')]
  obs['crashed'] = crashed
  obs['internal_slots'] = sorted(ctx.internal_slots)
  obs['plug_events'] = ctx.plug_events
  obs['events'] = ctx.events
  obs['ncb'] = len(out)
  obs['errors'] = ctx.errors
  return obs
