"""Thin TLC runner: copies the modules into a scratch directory, runs TLC, parses
statistics, coverage and printed values.  A TLC error (parse error, invariant
violated in a *design* check, deadlock where none is expected) is reported to
the caller; callers treat design failures as machinery errors (exit 2)."""
import os
import re
import shutil
import subprocess
import tempfile
import time

from vf import tlaval

JAR = '/opt/veriftools/tla/tla2tools.jar:/opt/veriftools/tla/CommunityModules-deps.jar'
SPECS = os.path.join(os.path.dirname(os.path.dirname(os.path.abspath(__file__))), 'specs')


class TLCError(Exception):
  pass


class Result:

  def __init__(self, out, wall):
    self.out = out
    self.wall = wall
    m = re.findall(r'(\d+) states generated, (\d+) distinct states found', out)
    self.generated = int(m[-1][0]) if m else 0
    self.distinct = int(m[-1][1]) if m else 0
    m = re.search(r'depth of the complete state graph search is (\d+)', out)
    self.depth = int(m.group(1)) if m else 0
    self.invariant_violated = re.findall(r'Invariant (\S+) is violated', out)
    self.property_violated = ('Temporal properties were violated' in out or
                              bool(re.search(r'Action property \S+ .*is violated', out)))
    self.deadlock = 'Deadlock reached' in out
    self.error = None
    m = re.search(r'^Error: (.*)$', out, re.M)
    if m and not (self.invariant_violated or self.deadlock or self.property_violated):
      self.error = m.group(1)
    self.finished = 'Model checking completed. No error has been found' in out or (
        'Finished in' in out and not m)
    self._cov = None

  @property
  def ok(self):
    return (not self.invariant_violated and not self.property_violated and
            not self.deadlock and not self.error)

  def coverage(self):
    """action name -> (distinct states found, states generated) from -coverage."""
    if self._cov is None:
      cov = {}
      for m in re.finditer(
          r'^<(\w+) line \d+, col \d+ to line \d+, col \d+ of module (\w+)>: (\d+):(\d+)',
          self.out, re.M):
        name = m.group(1)
        a, b = int(m.group(3)), int(m.group(4))
        pa, pb = cov.get(name, (0, 0))
        cov[name] = (max(pa, a), max(pb, b))
      self._cov = cov
    return self._cov

  def prints(self, marker):
    return tlaval.parse_many(self.out, marker)

  def counterexample(self):
    i = self.out.find('Error:')
    return self.out[i:i + 6000] if i >= 0 else ''


def run(module, cfg, files=(), gen=None, workers=None, simulate=None, depth=None,
        seed=None, env=None, timeout=1800, coverage=False, dfs_queue=False,
        scratch=None, deadlock=None, extra_args=(), heap='6g'):
  """module: module name (file specs/<module>.tla or a generated file in gen).
  cfg: cfg file name in specs/ or literal cfg text (contains a newline or
  'SPECIFICATION').  files: additional module names to copy.  gen: dict
  filename -> content of generated modules."""
  own = scratch is None
  d = scratch or tempfile.mkdtemp(prefix='vf-tlc-')
  try:
    for f in os.listdir(SPECS):
      if f.endswith('.tla'):
        shutil.copy(os.path.join(SPECS, f), d)
    for name, content in (gen or {}).items():
      with open(os.path.join(d, name), 'w') as fh:
        fh.write(content)
    if '\n' in cfg or 'SPECIFICATION' in cfg or 'INIT' in cfg:
      cfgpath = os.path.join(d, module + '_run.cfg')
      with open(cfgpath, 'w') as fh:
        fh.write(cfg)
    else:
      cfgpath = os.path.join(SPECS, cfg)
    cmd = ['java', '-XX:+UseParallelGC', '-Xmx' + heap]
    if dfs_queue:
      cmd.append('-Dtlc2.tool.queue.IStateQueue=StateDeque')
    cmd += ['-cp', JAR, 'tlc2.TLC', '-metadir', os.path.join(d, 'meta'),
            '-noGenerateSpecTE', '-config', cfgpath]
    if workers is None:
      workers = 'auto'
    cmd += ['-workers', str(workers)]
    if coverage:
      cmd += ['-coverage', '1']
    if deadlock is False:
      pass  # put CHECK_DEADLOCK FALSE in the cfg
    if simulate is not None:
      cmd += ['-simulate', 'num=%d' % simulate]
      if depth is not None:
        cmd += ['-depth', str(depth)]
    if seed is not None:
      cmd += ['-seed', str(seed)]
    cmd += list(extra_args)
    cmd.append(os.path.join(d, module + '.tla'))
    e = dict(os.environ)
    e.pop('JAVA_TOOL_OPTIONS', None)
    e.update(env or {})
    t0 = time.time()
    try:
      p = subprocess.run(cmd, cwd=d, env=e, stdout=subprocess.PIPE,
                         stderr=subprocess.STDOUT, timeout=timeout, text=True)
    except subprocess.TimeoutExpired as ex:
      raise TLCError('TLC timed out after %ss on %s' % (timeout, module)) from ex
    return Result(p.stdout, time.time() - t0)
  finally:
    if own:
      shutil.rmtree(d, ignore_errors=True)


def must_pass(res, what):
  """Design checks must pass; anything else is a machinery failure."""
  if not res.ok or not res.generated:
    raise TLCError('%s: TLC did not pass (%s)\n%s' % (
        what, res.error or res.invariant_violated or
        ('deadlock' if res.deadlock else 'property violated / no states'),
        res.out[-4000:]))
  return res
