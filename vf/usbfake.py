"""Stubs that let openhtf.plugs.usb import without libusb/M2Crypto, and fake
transports that log every chunk."""
import sys
import types

if 'libusb1' not in sys.modules:
  _stub = types.ModuleType('libusb1')
  _stub.LIBUSB_ERROR_TIMEOUT = -7

  class USBError(Exception):

    def __init__(self, value=None):
      super().__init__(value)
      self.value = value

  _stub.USBError = USBError
  sys.modules['libusb1'] = _stub
  sys.modules['usb1'] = types.ModuleType('usb1')
  _m2 = types.ModuleType('M2Crypto')
  _m2.RSA = types.ModuleType('M2Crypto.RSA')
  sys.modules['M2Crypto'] = _m2
  sys.modules['M2Crypto.RSA'] = _m2.RSA
else:
  USBError = sys.modules['libusb1'].USBError

sys.argv = sys.argv[:1]
import logging as _logging  # noqa: E402
_oh = _logging.getLogger('openhtf')
_oh.addHandler(_logging.NullHandler())
_oh.propagate = False
from openhtf.plugs.usb import adb_message  # noqa: E402
from openhtf.plugs.usb import adb_protocol  # noqa: E402
from openhtf.plugs.usb import fastboot_protocol  # noqa: E402
from openhtf.plugs.usb import usb_exceptions  # noqa: E402
from openhtf.util import timeouts  # noqa: E402


def timeout_error():
  return usb_exceptions.UsbReadFailedError(USBError(-7), 'read timed out (fake)')


class ChunkTransport:
  """Transport whose reads return a scripted list of chunks and whose writes
  are logged.  `on_write`/`on_read` hooks let a check add scheduling points or
  expire timeouts."""

  def __init__(self, rx=(), on_write=None, on_read=None):
    self.rx = list(rx)
    self.tx = []
    self.on_write = on_write
    self.on_read = on_read
    self.closed = False

  def write(self, data, timeout_ms=None):
    if self.on_write:
      self.on_write(self, data, timeout_ms)
    self.tx.append(data)

  def read(self, length, timeout_ms=None):
    if self.on_read:
      self.on_read(self, length, timeout_ms)
    if not self.rx:
      raise timeout_error()
    return self.rx.pop(0)[:length]      # a USB read returns at most `length` bytes of the packet

  def close(self):
    self.closed = True


def frame(cmd, a0, a1, data=''):
  """chunks a device would send for one message"""
  m = adb_message.AdbMessage(cmd, a0, a1, data)
  return [m.header, data] if data else [m.header]
