"""Batch trace validation: many recorded traces are checked by ONE TLC run
against a *_trace.tla module.  Returns the set of accepted trace ids."""
import json
import os
import re
import tempfile

from vf import tlc


def validate(module, cfg, traces, workers=4, dfs_queue=False, timeout=1200):
  """traces: list of dicts with 'id' (int) and 'ev' (list of event dicts)."""
  d = tempfile.mkdtemp(prefix='vf-trace-')
  try:
    path = os.path.join(d, 'traces.json')
    with open(path, 'w') as fh:
      json.dump(traces, fh)
    res = tlc.run(module, cfg, workers=workers, env={'TRACE_FILE': path}, dfs_queue=dfs_queue,
                  timeout=timeout, scratch=os.path.join(d, 'run') if False else None)
  finally:
    import shutil
    shutil.rmtree(d, ignore_errors=True)
  accepted = {int(x) for x in re.findall(r'<<\s*"ACCEPT",\s*(\d+)\s*>>', res.out)}
  return res, accepted
