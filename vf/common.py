"""Verdict / evidence / known-finding plumbing shared by all checks."""
import hashlib
import json
import os
import re
import sys
import time

ROOT = os.path.dirname(os.path.dirname(os.path.abspath(__file__)))
REPO = os.environ.get('VERIF_REPO', '/repo')


def known_findings():
  p = os.path.join(ROOT, 'known_findings.json')
  if not os.path.exists(p):
    return []
  with open(p) as fh:
    return json.load(fh)['findings']


class Check:
  """One run of one property's check."""

  def __init__(self, pid, tier, seed, level='model_checking'):
    self.pid = pid
    self.tier = tier
    self.seed = seed
    self.level = level
    self.t0 = time.time()
    self.violations = []       # (sig, detail) not covered by known findings
    self.known_hits = {}       # signature -> count
    self.notes = []
    self.cov = {}
    self.assumptions = []
    self.samples = []
    self.states = 0
    self.transitions = 0
    self.traces = 0
    self.evaluations = 0
    self.nontrivial = 0
    self.tlc_runs = []
    self._known = [f for f in known_findings()
                   if f.get('property') == pid and f.get('status') == 'known']
    self._printed = set()

  # ---- TLC bookkeeping
  def add_tlc(self, name, res, **extra):
    self.states += res.distinct
    self.transitions += res.generated
    d = dict(name=name, distinct=res.distinct, generated=res.generated,
             depth=res.depth, wall_s=round(res.wall, 2))
    d.update(extra)
    self.tlc_runs.append(d)

  def log(self, msg):
    print('[%s %6.1fs] %s' % (self.pid, time.time() - self.t0, msg), flush=True)

  def sample(self, s, limit=4):
    if len(self.samples) < limit:
      self.samples.append(s)

  def note(self, msg):
    if len(self.notes) < 50:
      self.notes.append(msg)
    if msg not in self._printed and len(self._printed) < 30:
      self._printed.add(msg)
      print('NOTE %s' % msg, flush=True)

  # ---- verdicts
  def violation(self, sig, detail):
    """sig: stable short signature of *what fails* (used to match known
    findings); detail: JSON-serialisable scenario for replay."""
    for f in self._known:
      if re.fullmatch(f['signature'], sig):
        self.known_hits[f['signature']] = self.known_hits.get(f['signature'], 0) + 1
        return False
    self.violations.append((sig, detail))
    return True

  def finish(self, explanation='', exhaustive=False, extra=None):
    # known findings: one line each, exit status unaffected
    for f in self._known:
      n = self.known_hits.get(f['signature'], 0)
      if n:
        print('KNOWN-FINDING: property=%s %s (observed %d time(s) in this run)'
              % (self.pid, f['what'], n), flush=True)
    rc = 0
    seen = set()
    os.makedirs(os.path.join(ROOT, 'replay'), exist_ok=True)
    for sig, detail in self.violations:
      if sig in seen:
        continue
      seen.add(sig)
      h = hashlib.sha1(sig.encode()).hexdigest()[:10]
      path = os.path.join(ROOT, 'replay', '%s-%s.json' % (self.pid, h))
      with open(path, 'w') as fh:
        json.dump(dict(property=self.pid, signature=sig, scenario=detail), fh,
                  indent=1, default=str)
      if len(seen) <= 20:
        print('VIOLATION property=%s replay=%s' % (self.pid, path), flush=True)
        print('  what: %s' % sig, flush=True)
      rc = 1
    cov = dict(
        states=self.states, transitions=self.transitions,
        traces_validated_against_impl=self.traces,
        evaluations=max(self.evaluations, self.traces),
        distinct_nontrivial=self.nontrivial,
        samples=self.samples or ['(no sample recorded)'],
        exhaustive=exhaustive, explanation=explanation,
        tlc_runs=self.tlc_runs, nonconformances=self.notes,
        known_finding_hits=self.known_hits,
        distinct_violation_signatures=sorted(seen))
    cov.update(self.cov)
    cov.update(extra or {})
    ev = dict(property_id=self.pid, tier=self.tier, seed=self.seed,
              level=self.level, coverage=cov, assumptions=self.assumptions,
              wall_s=round(time.time() - self.t0, 2),
              violations=len(self.violations))
    # extension checks (X..: behaviour beyond the listed properties) keep their evidence apart
    evdir = 'evidence' if not self.pid.startswith('X') else 'evidence_extra'
    if os.environ.get('VERIF_REPO', '/repo') != '/repo':
      evdir = 'evidence_scratch'      # a run against a scratch worktree (seeded change) must not replace the evidence
    os.makedirs(os.path.join(ROOT, evdir), exist_ok=True)
    with open(os.path.join(ROOT, evdir, '%s.json' % self.pid), 'w') as fh:
      json.dump(ev, fh, indent=1, default=str)
    self.log('done: states=%d traces=%d nontrivial=%d violations=%d known=%d wall=%.1fs'
             % (self.states, self.traces, self.nontrivial, len(self.violations),
                sum(self.known_hits.values()), time.time() - self.t0))
    return rc


def machinery_failure(pid, msg):
  print('MACHINERY-FAILURE property=%s %s' % (pid, msg), flush=True)
  sys.exit(2)


def chunks(seq, n):
  for i in range(0, len(seq), n):
    yield seq[i:i + n]
