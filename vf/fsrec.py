"""Records (and optionally interrupts) the file-system operations a callback
performs, by wrapping the standard-library entry points it uses while the
recorder is active: tempfile.NamedTemporaryFile, builtins.open (for paths in
the scratch directory), shutil.move, os.rename, os.replace, os.remove.  No
openhtf code is replaced."""
import builtins
import os
import shutil
import tempfile


class InjectedFault(OSError):
  pass


class Recorder:

  def __init__(self, scratch, dest, crash_at=None, fail_kind=None, fail_n=None):
    self.scratch = scratch
    self.dest = dest
    self.ops = []            # (kind, detail)
    self.crash_at = crash_at  # os._exit after this many operations
    self.fail_kind, self.fail_n = fail_kind, fail_n
    self.counts = {}
    self.tmpname = None

  def op(self, kind, detail=None, pre=False):
    """called after the operation happened (pre=False)"""
    self.ops.append((kind, detail))
    if self.crash_at is not None and len(self.ops) >= self.crash_at:
      os._exit(77)

  def maybe_fail(self, kind):
    self.counts[kind] = self.counts.get(kind, 0) + 1
    if self.fail_kind == kind and self.counts[kind] == self.fail_n:
      self.ops.append(('fault', kind))
      raise InjectedFault('injected %s fault #%d' % (kind, self.fail_n))

  def __enter__(self):
    rec = self
    self._orig = (tempfile.NamedTemporaryFile, shutil.move, os.rename, os.replace, os.remove, builtins.open)
    o_ntf, o_move, o_rename, o_replace, o_remove, o_open = self._orig

    class FileProxy:
      def __init__(self, f, is_dest=False):
        self._f = f
        self._is_dest = is_dest
        self.name = f.name

      def write(self, data):
        rec.maybe_fail('write')
        n = self._f.write(data)
        self._f.flush()
        rec.op('direct_write' if self._is_dest else 'write', len(data))
        return n

      def close(self):
        if self._f.closed:
          return
        rec.maybe_fail('close')
        self._f.close()
        if not self._is_dest:
          rec.op('close')

      def flush(self):
        return self._f.flush()

      def fileno(self):
        return self._f.fileno()

      def __enter__(self):
        return self

      def __exit__(self, *a):
        self.close()

      def __getattr__(self, k):
        return getattr(self._f, k)

    def ntf(*a, **kw):
      kw.setdefault('dir', rec.scratch)
      f = o_ntf(*a, **kw)
      rec.tmpname = f.name
      rec.op('create', os.path.basename(f.name))
      return FileProxy(f)

    def rename(src, dst, *a, **kw):
      r = o_rename(src, dst, *a, **kw)
      if dst == rec.dest or src == rec.tmpname:
        rec.op('rename' if dst == rec.dest else 'move-other', os.path.basename(dst))
      return r

    def remove(path, *a, **kw):
      r = o_remove(path, *a, **kw)
      if path == rec.tmpname:
        rec.op('remove')
      return r

    def open_(path, mode='r', *a, **kw):
      f = o_open(path, mode, *a, **kw)
      if isinstance(path, str) and path.startswith(rec.scratch) and any(c in mode for c in 'wa+'):
        if path == rec.dest:
          return FileProxy(f, is_dest=True)
        if path == rec.tmpname:
          return FileProxy(f)
      return f
    tempfile.NamedTemporaryFile = ntf
    os.rename = rename
    os.replace = rename
    os.remove = remove
    builtins.open = open_
    return self

  def __exit__(self, *a):
    (tempfile.NamedTemporaryFile, shutil.move, os.rename, os.replace, os.remove,
     builtins.open) = self._orig
