"""Stateless preemption-bounded DFS over the decisions of vf.sched.Sched.

run_fn(policy) must execute one complete run under a fresh Sched(policy=policy)
and return (sched, result).  A decision is recorded by the scheduler only when
more than one thread is enabled; a preemption is a decision that does not pick
the previously running thread although it is enabled."""
from vf import sched as S


class _DfsPolicy:
  handles_expiry = True

  def __init__(self, prefix):
    self.prefix = prefix
    self.i = 0

  def choose(self, sched, enabled, current):
    if self.i < len(self.prefix):
      want = self.prefix[self.i]
      self.i += 1
      for s in enabled:
        if s.label == want:
          return s
      raise S.ReplayDivergence('wanted %s, enabled %s' % (want, [s.label for s in enabled]))
    self.i += 1
    for s in enabled:
      if s is current and not s.expiring:
        return s
    for s in enabled:
      if not s.expiring:
        return s
    return enabled[0]


DIVERGED = [0]


def preemptions(decisions):
  # letting a short timed wait expire early ("<name>~") costs one preemption too
  return sum(1 for names, pick, last in decisions if (last in names and pick != last) or pick.endswith('~'))


def explore(run_fn, bound, max_runs=100000, root=()):
  """yields (picks, decisions, result, failure) for every schedule with at
  most `bound` preemptions that extends `root`."""
  todo = [list(root)]
  runs = 0
  while todo and runs < max_runs:
    prefix = todo.pop()
    pol = _DfsPolicy(prefix)
    failure = None
    try:
      sched, result = run_fn(pol)
    except (S.Deadlock, S.StepBudget) as e:
      failure = e
      sched, result = getattr(e, 'sched', None), None
    except S.ReplayDivergence:
      # the code under test was not deterministic for this prefix: skip it
      DIVERGED[0] += 1
      continue
    runs += 1
    decisions = sched.decisions if sched is not None else pol_decisions(pol)
    picks = [d[1] for d in decisions]
    yield picks, decisions, result, failure
    for i in range(len(prefix), len(decisions)):
      names, pick, last = decisions[i]
      for alt in names:
        if alt == pick:
          continue
        nd = decisions[:i] + [(names, alt, last)]
        if preemptions(nd) <= bound:
          todo.append([d[1] for d in nd])


def pol_decisions(pol):
  return []


def split_roots(run_fn, bound, depth):
  """prefixes of length <= depth that partition the schedule space (for
  distributing the DFS over processes)."""
  roots = []
  todo = [[]]
  while todo:
    prefix = todo.pop()
    pol = _DfsPolicy(prefix)
    try:
      sched, _ = run_fn(pol)
      decisions = sched.decisions
    except (S.Deadlock, S.StepBudget) as e:
      decisions = getattr(e, 'sched').decisions if getattr(e, 'sched', None) else []
    except S.ReplayDivergence:
      continue
    if len(decisions) <= depth or len(prefix) >= depth:
      roots.append(prefix)
      continue
    # expand alternatives at positions len(prefix)..depth-1, keep default path as root at depth
    roots.append([d[1] for d in decisions[:depth]])
    for i in range(len(prefix), depth):
      names, pick, last = decisions[i]
      for alt in names:
        if alt == pick:
          continue
        nd = decisions[:i] + [(names, alt, last)]
        if preemptions(nd) <= bound:
          todo.append([d[1] for d in nd])
  return roots
