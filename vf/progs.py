"""Program (node tree) construction and enumeration for Executor.tla.

A program is a Python dict mirroring the TLA+ record used by the spec.  Sets
are Python frozensets (rendered as TLA+ sets).  Programs are generated
deterministically, so (family, index) identifies one.
"""
import functools
import itertools

from vf.tlaval import to_tla

NOOPTS = dict(runif='none', limit=0, force=False, romf=False, rot=False, somf=False)


def opts(**kw):
  o = dict(NOOPTS)
  o.update(kw)
  return o


def beh(bs, ms=('n',), ds=((),)):
  return frozenset((b, m, tuple(d)) for b in bs for m in ms for d in ds)


def phase(name, behs, o=None, plugs=(), ndiag=0, mk='none', mon=False):
  """mon: the body is wrapped with openhtf.core.monitors.monitors() (transparent for the model)"""
  return dict(k='phase', name=name, opts=o or dict(NOOPTS), beh=behs,
              plugs=frozenset(plugs), ndiag=ndiag, mk=mk, mon=mon)


def seq(ch):
  return dict(k='seq', name='', ch=list(ch))


def subtest(name, ch):
  return dict(k='subtest', name=name, ch=list(ch))


def branch(name, on, rs, ch):
  return dict(k='branch', name=name, cond=dict(on=on, rs=frozenset(rs)), ch=list(ch))


def group(name, setup, main, tdn):
  return dict(k='group', name=name, setup=list(setup), main=list(main), tdn=list(tdn))


def ckpt(name, kind, action, on='ANY', rs=()):
  return dict(k='ckpt', name=name, kind=kind, action=action,
              cond=dict(on=on, rs=frozenset(rs)))


NONE_NODE = dict(k='none', name='', plugs=frozenset())


def program(root_children, start=None, tdiag=(), sof=False, unset=False, fexc=False,
            plugspec=None):
  root = seq(root_children)
  allplugs = set()
  for p in all_phases(root):
    allplugs |= set(p['plugs'])
  st = start or NONE_NODE
  allplugs |= set(st['plugs'])
  ps = plugspec or {}
  spec = dict(start=frozenset(st['plugs']), all=frozenset(allplugs),
              bad=frozenset(ps.get('bad', ())),
              tdmode=PlugModes({c: ps.get('tdmode', {}).get(c, 'ok') for c in sorted(allplugs)}))
  return dict(root=root, start=st, tdiag=[frozenset(t) for t in tdiag],
              set=dict(sof=sof, unset=unset, fexc=fexc), plugspec=spec)


class PlugModes(dict):
  """Rendered as a TLA+ function (possibly with empty domain)."""


def all_phases(node):
  k = node['k']
  if k == 'phase':
    yield node
  elif k in ('seq', 'subtest', 'branch'):
    for c in node['ch']:
      yield from all_phases(c)
  elif k == 'group':
    for part in ('setup', 'main', 'tdn'):
      for c in node[part]:
        yield from all_phases(c)


def all_nodes(node):
  yield node
  k = node['k']
  if k in ('seq', 'subtest', 'branch'):
    for c in node['ch']:
      yield from all_nodes(c)
  elif k == 'group':
    for part in ('setup', 'main', 'tdn'):
      for c in node[part]:
        yield from all_nodes(c)


def tla(o):
  if isinstance(o, PlugModes):
    if not o:
      return '[x \\in {} |-> "ok"]'
    return '(' + ' @@ '.join('%s :> %s' % (to_tla(k), to_tla(v)) for k, v in o.items()) + ')'
  if isinstance(o, dict):
    return '[' + ', '.join('%s |-> %s' % (k, tla(v)) for k, v in o.items()) + ']'
  if isinstance(o, (set, frozenset)):
    return '{' + ', '.join(sorted(tla(x) for x in o)) + '}'
  if isinstance(o, (list, tuple)):
    return '<<' + ', '.join(tla(x) for x in o) + '>>'
  return to_tla(o)


def module(name, programs, extends='Executor'):
  body = ',\n'.join(tla(p) for p in programs)
  return ('---- MODULE %s ----\nEXTENDS %s\nMCPrograms == <<\n%s\n>>\n====\n'
          % (name, extends, body))


# ----------------------------------------------------------------------
# shapes: unlabeled trees up to n nodes over a set of kinds

@functools.lru_cache(None)
def forests(n, kinds):
  if n == 0:
    return [()]
  out = []
  for k in range(1, n + 1):
    for t in trees(k, kinds):
      for rest in forests(n - k, kinds):
        out.append((t,) + rest)
  return out


@functools.lru_cache(None)
def trees(n, kinds):
  out = []
  if n == 1:
    if 'P' in kinds:
      out.append(('P',))
    if 'K' in kinds:
      out.append(('K',))
  if n >= 2:
    for f in forests(n - 1, kinds):
      for k in 'QUB':
        if k in kinds:
          out.append((k, f))
    if 'G' in kinds:
      for a in range(0, n):
        for b in range(0, n - a):
          c = n - 1 - a - b
          if c < 0:
            continue
          for fa in forests(a, kinds):
            for fb in forests(b, kinds):
              for fc in forests(c, kinds):
                out.append(('G', fa, fb, fc))
  return out


class Namer:

  def __init__(self):
    self.c = {}

  def __call__(self, prefix):
    self.c[prefix] = self.c.get(prefix, 0) + 1
    return '%s%d' % (prefix, self.c[prefix])


def instantiate(shape, mk):
  """shape -> node; mk(kind, namer-supplied name, children...) builds leaves and
  decorated inner nodes.  mk is an object with methods phase(name),
  ckpt(name), branch(name, ch)."""
  nm = Namer()

  def go(t):
    k = t[0]
    if k == 'P':
      return mk.phase(nm('p'))
    if k == 'K':
      return mk.ckpt(nm('k'))
    if k == 'Q':
      return seq([go(c) for c in t[1]])
    if k == 'U':
      return subtest(nm('s'), [go(c) for c in t[1]])
    if k == 'B':
      return mk.branch(nm('b'), [go(c) for c in t[1]])
    if k == 'G':
      return group(nm('g'), [go(c) for c in t[1]], [go(c) for c in t[2]],
                   [go(c) for c in t[3]])
    raise ValueError(k)

  return [go(t) for t in shape]
