#!/bin/sh
# Offline setup: nothing to build; verify the tools the checks need are present
# and that every specification parses.
set -e
cd "$(dirname "$0")"
command -v java >/dev/null
test -f /opt/veriftools/tla/tla2tools.jar
test -x /venv/bin/python
mkdir -p evidence replay
d=$(mktemp -d)
trap 'rm -rf "$d"' EXIT
cp specs/*.tla "$d"/
for f in specs/*.tla; do
  m=$(basename "$f")
  case "$m" in *_gen*) continue;; esac
  (cd "$d" && java -cp /opt/veriftools/tla/tla2tools.jar:/opt/veriftools/tla/CommunityModules-deps.jar tla2sany.SANY "$m" >"$d/sany.out" 2>&1) || { cat "$d/sany.out"; echo "SANY failed on $m"; exit 1; }
  if grep -q "Fatal errors\|\*\*\* Errors" "$d/sany.out"; then cat "$d/sany.out"; echo "SANY failed on $m"; exit 1; fi
done
env PYTHONPATH=/verif:/repo PYTHONDONTWRITEBYTECODE=1 /venv/bin/python -c "import sys; sys.argv=sys.argv[:1]; import openhtf, vf.tlc, vf.tlaval, vf.common"
echo "setup ok"
