import io, os, tempfile, json
import openhtf as htf
from openhtf.core import measurements
from openhtf.util import validators
from openhtf.output.callbacks import json_factory
from openhtf import output
import openhtf.output.callbacks as cb

# C06 stale marginal
m = measurements.Measurement('m').in_range(0, 10, marginal_minimum=1, marginal_maximum=9)
c = measurements.Collection({'m': m})
c['m'] = 9.5
print('after marginal set:', m.outcome, m.marginal)
c['m'] = 5
print('after override non-marginal:', m.outcome, m.marginal)
c['m'] = 50
print('after override failing:', m.outcome, m.marginal)

# C10 dimensioned + transform cache
m2 = measurements.Measurement('d').with_dimensions('x').with_transform(lambda v: v*100)
c2 = measurements.Collection({'d': m2})
c2['d'][1] = 2
print('value', m2.measured_value.value, 'basetype', m2.measured_value.basetype_value())

# C17 truncated publish
d = tempfile.mkdtemp()
dest = os.path.join(d, 'out.txt')
open(dest,'w').write('OLD COMPLETE CONTENT')
class Boom(cb.OutputToFile):
    @staticmethod
    def serialize_test_record(rec):
        def gen():
            yield 'chunk1'
            raise RuntimeError('serializer failed')
        return gen()
o = Boom(dest)
class R: pass
from openhtf.core import test_record
rec = test_record.TestRecord('dut','st')
try:
    o(rec)
except Exception as e:
    print('raised', e)
print('dest now:', open(dest).read())

# checkpoints in as_base_types?
print('checkpoints' in rec.as_base_types())
