import sys, itertools, functools
N=int(sys.argv[1]); BEH=sys.argv[2]
@functools.lru_cache(None)
def forests(n):
    if n==0: return [()]
    out=[]
    for k in range(1,n+1):
        for t in trees(k):
            for rest in forests(n-k):
                out.append((t,)+rest)
    return out
@functools.lru_cache(None)
def trees(n):
    out=[]
    if n==1: out.append(('phase',))
    if n>=2:
        for f in forests(n-1):
            out.append(('seq',f)); out.append(('subtest',f))
        for a in range(0,n):
            for b in range(0,n-a):
                c=n-1-a-b
                if c<0: continue
                for fa in forests(a):
                    for fb in forests(b):
                        for fc in forests(c):
                            out.append(('group',fa,fb,fc))
    return out
ctr=[0,0]
def tla(t):
    if t[0]=='phase':
        ctr[0]+=1
        return '[k |-> "phase", name |-> "p%d", beh |-> {%s}]'%(ctr[0], ','.join('"%s"'%b for b in BEH))
    if t[0] in('seq','subtest'):
        nm=''
        if t[0]=='subtest':
            ctr[1]+=1; nm='s%d'%ctr[1]
        return '[k |-> "%s", name |-> "%s", ch |-> %s]'%(t[0],nm,seq(t[1]))
    return '[k |-> "group", name |-> "", setup |-> %s, main |-> %s, tdn |-> %s]'%(seq(t[1]),seq(t[2]),seq(t[3]))
def seq(f): return '<<'+', '.join(tla(x) for x in f)+'>>'
progs=[]
for n in range(0,N+1):
    for f in forests(n):
        ctr[0]=ctr[1]=0
        progs.append('[k |-> "seq", name |-> "", ch |-> %s]'%seq(f))
print('---- MODULE MCExec ----\nEXTENDS ExecProto\nMCPrograms == <<\n'+',\n'.join(progs)+'\n>>\n====')
sys.stderr.write('programs %d\n'%len(progs))
