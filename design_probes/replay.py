import json, re, sys, time
sys.argv=sys.argv[:1]
import openhtf as htf
from openhtf.util import console_output
from openhtf.core import phase_group, phase_collections
console_output.CLI_QUIET=True
import logging; logging.disable(logging.CRITICAL)

# parse programs from MCExec.tla (tiny TLA record parser)
src=open('MCExec.tla').read()
body=src[src.index('MCPrograms == <<')+len('MCPrograms == '):src.rindex('====')]
tok=re.compile(r'\s*(<<|>>|\[|\]|\{|\}|,|\|->|"[^"]*"|[A-Za-z_][A-Za-z0-9_]*)')
toks=tok.findall(body); pos=[0]
def parse():
    t=toks[pos[0]]; pos[0]+=1
    if t=='<<':
        out=[]
        while toks[pos[0]]!='>>':
            out.append(parse())
            if toks[pos[0]]==',': pos[0]+=1
        pos[0]+=1; return out
    if t=='{':
        out=[]
        while toks[pos[0]]!='}':
            out.append(parse())
            if toks[pos[0]]==',': pos[0]+=1
        pos[0]+=1; return out
    if t=='[':
        out={}
        while toks[pos[0]]!=']':
            k=toks[pos[0]]; assert toks[pos[0]+1]=='|->'; pos[0]+=2
            out[k]=parse()
            if toks[pos[0]]==',': pos[0]+=1
        pos[0]+=1; return out
    if t.startswith('"'): return t[1:-1]
    return t
programs=parse()
print('programs', len(programs))

RES={'C':None,'F':htf.PhaseResult.FAIL_AND_CONTINUE,'S':htf.PhaseResult.STOP,'X':htf.PhaseResult.FAIL_SUBTEST}
def build(node, script, log):
    k=node['k']
    if k=='phase':
        name=node['name']
        def body(test, _name=name):
            b=script[_name].pop(0)
            log.append({'n':_name,'b':b,'seen':len(test.test_record.phases)})
            if b=='E': raise RuntimeError('boom')
            return RES[b]
        return htf.PhaseOptions(name=name)(body)
    if k=='seq': return phase_collections.PhaseSequence(tuple(build(c,script,log) for c in node['ch']))
    if k=='subtest': return phase_collections.Subtest(node['name'], *[build(c,script,log) for c in node['ch']])
    if k=='group':
        return htf.PhaseGroup(setup=[build(c,script,log) for c in node['setup']] or None,
                              main=[build(c,script,log) for c in node['main']] or None,
                              teardown=[build(c,script,log) for c in node['tdn']] or None)
hists=[json.loads(json.loads('"'+m+'"')) for m in re.findall(r'<<"HIST", "(.*)">>', open('out2.txt').read())]
print('scenarios', len(hists))
bad=0; t0=time.time()
for h in hists:
    prog=programs[h['p']-1]
    script={}
    for c in h['calls']: script.setdefault(c['n'],[]).append(c['b'])
    log=[]; out=[]
    t=htf.Test(*[build(c,script,log) for c in prog['ch']])
    t.add_output_callbacks(out.append)
    r=t.execute()
    rec=out[0]
    got=dict(calls=log,
             recs=[{'name':p.name,'oc':p.outcome.name,'sub':p.subtest_name or ''} for p in rec.phases],
             subs=[{'name':s.name,'oc':s.outcome.name} for s in rec.subtests],
             oc=rec.outcome.name)
    exp={k:h[k] for k in got}
    if got!=exp or r!=(exp['oc']=='PASS'):
        bad+=1
        if bad<=3: print('MISMATCH', json.dumps(prog)[:300], '\n exp', exp, '\n got', got)
print('mismatches', bad, 'time %.1fs'%(time.time()-t0))
