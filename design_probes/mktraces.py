import json, sys
from rp_common import *
traces=[]
for h in hists:
    prog=programs[h['p']-1]
    script={}
    for c in h['calls']: script.setdefault(c['n'],[]).append(c['b'])
    log=[]; out=[]
    t=htf.Test(*[build(c,script,log) for c in prog['ch']])
    t.add_output_callbacks(out.append); t.execute(); rec=out[0]
    ev=[dict(e='body',**c) for c in log]
    ev.append(dict(e='final', oc=rec.outcome.name,
        recs=[{'name':p.name,'oc':p.outcome.name,'sub':p.subtest_name or ''} for p in rec.phases],
        subs=[{'name':s.name,'oc':s.outcome.name} for s in rec.subtests]))
    def strip(n):
        n=dict(n); n.pop('beh',None)
        for k in ('ch','setup','main','tdn'):
            if k in n: n[k]=[strip(c) for c in n[k]]
        return n
    traces.append(dict(prog=strip(prog), ev=ev))
# corrupt two copies to demonstrate rejection
import copy
bad1=copy.deepcopy(next(t for t in traces if len(t['ev'])>2)); bad1['ev'][-1]['oc']='PASS' if bad1['ev'][-1]['oc']!='PASS' else 'FAIL'
bad2=copy.deepcopy(next(t for t in traces if len(t['ev'])>3)); del bad2['ev'][1]
traces += [bad1,bad2]
json.dump(traces, open('traces.json','w'))
print('traces', len(traces))
