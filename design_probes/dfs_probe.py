"""DFS (preemption-bounded) exploration of the real SubscribableStateMixin."""
import sys, threading, time
sys.argv = sys.argv[:1]
import sched_probe as sp
from openhtf import util

class Obj(util.SubscribableStateMixin):
  def __init__(self):
    super().__init__()
    self.version = 0
  def _asdict(self):
    sp.SCHED.yield_('asdict')
    return {'v': self.version}

class Mutant(Obj):
  """Simulates the mutation: snapshot first, register afterwards."""
  def asdict_with_event(self):
    event = threading.Event()
    state = self._asdict()
    with self._lock:
      self._update_events.add(event)
    return state, event

def scenario(cls, nw, nu, log):
  def main():
    obj = cls()
    res = {}
    def watcher(i):
      snap, ev = obj.asdict_with_event()
      res[i] = (snap['v'], ev)
      log.append(('snap', i, snap['v']))
    def updater(j):
      obj.version += 1
      log.append(('change', j, obj.version))
      obj.notify_update()
      log.append(('notified', j))
    ts = [threading.Thread(target=watcher, args=(i,), name='w%d' % i) for i in range(nw)]
    ts += [threading.Thread(target=updater, args=(j,), name='u%d' % j) for j in range(nu)]
    for t in ts: t.start()
    for t in ts: t.join()
    final = obj.version
    lost = [i for i, (v, ev) in res.items() if v != final and not ev.is_set()]
    log.append(('final', final, tuple(lost)))
  return main

def explore(cls, nw, nu, bound, max_runs=100000):
  todo = [[]]
  runs = 0; bad = []; sigs = set()
  while todo and runs < max_runs:
    prefix = todo.pop()
    decisions = []
    state = {'last': None}
    def choose(en):
      names = [s.name for s, _ in en]
      i = len(decisions)
      if i < len(prefix):
        pick = prefix[i]
      else:
        pick = state['last'] if state['last'] in names else names[0]
      decisions.append((names, pick, state['last']))
      state['last'] = pick
      for s, ok in en:
        if s.name == pick:
          return s, ok
      raise RuntimeError('replay divergence %s %s' % (pick, names))
    log = []
    s = sp.Sched(choose)
    s.run(scenario(cls, nw, nu, log))
    runs += 1
    sigs.add(tuple(log))
    if log[-1][2]:
      bad.append((list(d[1] for d in decisions), log))
    # expand alternatives beyond the prefix
    def preempts(ds):
      return sum(1 for names, pick, last in ds if last in names and pick != last)
    for i in range(len(prefix), len(decisions)):
      names, pick, last = decisions[i]
      for alt in names:
        if alt == pick: continue
        nd = decisions[:i] + [(names, alt, last)]
        if preempts(nd) <= bound:
          todo.append([d[1] for d in nd])
  return runs, len(sigs), bad

for cls in (Obj, Mutant):
  for bound in (0, 1, 2):
    t0 = time.time()
    runs, nsig, bad = explore(cls, 2, 2, bound)
    print('%-7s bound=%d runs=%5d distinct_logs=%4d lost_update_runs=%d  %.1fs' % (
        cls.__name__, bound, runs, nsig, len(bad), time.time() - t0))
    if bad:
      print('   witness schedule:', bad[0][0]); print('   log:', bad[0][1])
