import sys, logging
sys.argv = sys.argv[:1]
from openhtf.util import logs
from openhtf.core import test_record
logs.configure_logging()
recA = test_record.TestRecord('a', 's'); recB = test_record.TestRecord('b', 's')
logs.initialize_record_handler('uidA', recA, lambda: None)
logs.initialize_record_handler('uidB', recB, lambda: None)
htf = logging.getLogger('openhtf')
hA = [h for h in htf.handlers if isinstance(h, logs.RecordHandler) and h.test_uid == 'uidA'][0]
# Emulate the interleaving: while a thread of run B is inside hA.emit (it holds
# hA's lock, which is a scheduling point), run A finishes and removes its handler.
orig_emit = hA.emit
def emit_then_A_finishes(record):
  orig_emit(record)
  logs.remove_record_handler('uidA')
hA.emit = emit_then_A_finishes
logging.getLogger('openhtf.core.something').info('framework message during both runs')
print('run A got:', [r.message for r in recA.log_records])
print('run B got:', [r.message for r in recB.log_records])
print('handlers now:', [type(h).__name__ + ':' + getattr(h, 'test_uid', '') for h in htf.handlers])
