import sys, types
sys.argv = sys.argv[:1]
for m in ('libusb1','usb1','M2Crypto'):
    sys.modules[m] = types.ModuleType(m)
sys.modules['libusb1'].LIBUSB_ERROR_TIMEOUT = -7
sys.modules['M2Crypto'].RSA = types.ModuleType('RSA')
import logging; logging.disable(logging.CRITICAL)
import openhtf as htf
from openhtf.util import console_output
console_output.CLI_QUIET = True

ran = []
@htf.PhaseOptions(run_if=lambda: False, repeat_on_measurement_fail=True)
def first(test): ran.append('first')
def second(test): ran.append('second'); return htf.PhaseResult.FAIL_AND_CONTINUE
t = htf.Test(first, second); out = []
t.add_output_callbacks(out.append)
print('C01 second site: execute ->', t.execute(), out[0].outcome, 'ran', ran)

from openhtf.plugs.usb import adb_message, adb_protocol, usb_exceptions
M = adb_message.AdbMessage
def frame(cmd, a0, a1, data=''):
  m = M(cmd, a0, a1, data); return [m.header, data] if data else [m.header]
class T:
  def __init__(s, rx): s.rx = list(rx); s.tx = []
  def write(s, d, t=None): s.tx.append(d)
  def read(s, n, t=None): return s.rx.pop(0)
  def close(s): pass
t = T(frame('CNXN', 1, 256, 'device:S:b') + frame('OKAY', 9, 1) + frame('AUTH', 1, 0, 'tok'))
c = adb_protocol.AdbConnection.connect(t)
st = c.open_stream('shell:x', timeout_ms=100)
try:
  st.read(timeout_ms=100)
except Exception as e:
  print('C15 illegal mid-session packet ->', type(e).__name__, ':', e)
