CONSTANT Programs <- NoProgs
SPECIFICATION TSpec
INVARIANT Accept
INVARIANT NoFalsePass
CHECK_DEADLOCK FALSE
