"""Emulate SIGINT arriving on the main thread exactly at `self._executor.start()`
inside execute()'s `with self._lock:` block (the handler runs synchronously on
the main thread, as CPython does)."""
import sys, signal, threading, faulthandler
sys.argv = sys.argv[:1]
import logging; logging.disable(logging.CRITICAL)
import openhtf as htf
from openhtf.core import test_executor
from openhtf.util import console_output
console_output.CLI_QUIET = True
faulthandler.dump_traceback_later(5, exit=True)   # watchdog: dump + exit if we hang
orig = test_executor.TestExecutor.start
def start_with_signal(self):
  test_executor.TestExecutor.start = orig
  try:
    htf.Test.handle_sig_int(signal.SIGINT, None)   # what the real handler would do here
  finally:
    pass
  orig(self)
test_executor.TestExecutor.start = start_with_signal
def p(test): pass
t = htf.Test(p)
try:
  print('execute ->', t.execute())
except KeyboardInterrupt:
  print('KeyboardInterrupt propagated; executor slot:', t._executor, 'registry:', dict(htf.Test.TEST_INSTANCES))
