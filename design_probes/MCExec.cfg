CONSTANT Programs <- MCPrograms
SPECIFICATION Spec
INVARIANT NoFalsePass
INVARIANT Emit
CHECK_DEADLOCK FALSE
