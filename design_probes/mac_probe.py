import sys, logging
sys.argv = sys.argv[:1]
from openhtf.util import logs
from openhtf.core import test_record
logs.configure_logging()
rec = test_record.TestRecord('d', 's')
logs.initialize_record_handler('uid1', rec, lambda: None)
lg = logs.get_record_logger_for('uid1')
MAC = 'f8:8f:ca:12:34:56'
class Dev:
  def __str__(self): return 'dev<%s>' % MAC
logging.raiseExceptions = False
cases = [
  ('msg literal',        lambda: lg.info('mac is ' + MAC)),
  ('str arg',            lambda: lg.info('mac is %s', MAC)),
  ('upper str arg',      lambda: lg.info('mac is %s', MAC.upper())),
  ('object arg',         lambda: lg.info('mac is %s', Dev())),
  ('tuple arg',          lambda: lg.info('macs %s', (MAC, 'x'))),
  ('dict-style args',    lambda: lg.info('mac is %(m)s', {'m': MAC})),
  ('exception arg',      lambda: lg.info('failed: %s', ValueError(MAC))),
  ('no separators end',  lambda: lg.info('id=%s.', MAC)),
]
for name, f in cases:
  n = len(rec.log_records)
  f()
  new = [r.message for r in rec.log_records[n:]]
  leaked = any(MAC.lower()[9:] in m.lower() for m in new)
  print('%-18s -> %s%s' % (name, new, '   <<< LEAK' if leaked else ('   <<< DROPPED' if not new else '')))
