---- MODULE ExecTrace ----
EXTENDS ExecProto, IOUtils
Traces == JsonDeserialize(IOEnv.TRACE_FILE)
NoProgs == <<>>
VARIABLES tid, l
tvars == <<vars, tid, l>>
Ev == Traces[tid].ev

TInit == /\ tid \in 1..Len(Traces) /\ l = 1 /\ pi = 0
         /\ stack = <<NodeF(Traces[tid].prog, FALSE, 0)>>
         /\ ret = "NONE" /\ recs = <<>> /\ subs = <<>> /\ open = <<>>
         /\ last = "NONE" /\ calls = <<>> /\ status = "run"

AtPhase == ret = "NONE" /\ Len(stack) > 0 /\ Top.t = "node" /\ Top.n.k = "phase"
Skipping == ~Top.td /\ SubFailed(Top.sub)

TSilent == /\ Len(stack) > 0
           /\ \/ (ret # "NONE" /\ Return)
              \/ (ret = "NONE" /\ Top.t = "node" /\ Top.n.k # "phase" /\ Dispatch)
              \/ (AtPhase /\ Skipping /\ DoPhase(Top))
           /\ UNCHANGED <<pi, tid, l>>

TBody == /\ l <= Len(Ev) /\ Ev[l].e = "body"
         /\ AtPhase /\ ~Skipping
         /\ Top.n.name = Ev[l].n /\ Ev[l].seen = Len(recs)
         /\ PhaseStep(Top, Ev[l].b)
         /\ l' = l + 1 /\ UNCHANGED <<pi, tid>>

TFinal == /\ l <= Len(Ev) /\ Ev[l].e = "final"
          /\ Finish
          /\ Outcome = Ev[l].oc /\ recs = Ev[l].recs /\ subs = Ev[l].subs
          /\ l' = l + 1 /\ UNCHANGED <<pi, tid>>

TNext == TSilent \/ TBody \/ TFinal
TSpec == TInit /\ [][TNext]_tvars
Accept == l = Len(Ev) + 1 => PrintT(<<"ACCEPT", tid>>)
====
