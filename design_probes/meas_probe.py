"""All assignment histories (<=3 ops) on a scalar and a 1-D dimensioned
measurement vs an oracle written from the C06 statement."""
import sys, itertools, logging
sys.argv = sys.argv[:1]
logging.disable(logging.CRITICAL)
from openhtf.core import measurements as M
from openhtf.util import validators as V

class Boom(Exception): pass
def raising(v):
  if v == 7: raise Boom()
  return True
def dim_ok(rows): return all(0 <= r[-1] <= 10 for r in rows)
def dim_raising(rows):
  if any(r[-1] == 7 for r in rows): raise Boom()
  return True

VALUES = [5, 9.5, 50, 7]
XF = [None, lambda v: v + 1]
def mk(kind, val, xf):
  if kind == 's':
    m = M.Measurement('m')
    if val == 'range': m.in_range(0, 10, marginal_minimum=1, marginal_maximum=9)
    if val == 'raise': m.with_validator(raising)
  else:
    m = M.Measurement('m').with_dimensions('x')
    if val == 'range': m.with_validator(dim_ok)
    if val == 'raise': m.with_validator(dim_raising)
  if xf: m.with_transform(xf)
  return m
bad = []; n = 0
for kind, val, xi in itertools.product('sd', ['none', 'range', 'raise'], [0, 1]):
  xf = XF[xi]
  ops_alphabet = ([('set', v) for v in VALUES] if kind == 's'
                  else [('setd', c, v) for c in (1, 2) for v in VALUES]) + [('bad_undeclared',), ('bad_nocoord',), ('bad_arity',)]
  for L in (1, 2, 3):
    for hist in itertools.product(ops_alphabet, repeat=L):
      n += 1
      m = mk(kind, val, xf); coll = M.Collection({'m': m})
      exp_vals = {}; order = []; raised_any = False; errs = []
      for op in hist:
        before = (m.outcome, m.marginal, dict(exp_vals))
        try:
          if op[0] == 'set':
            if kind == 'd': raise AssertionError
            coll['m'] = op[1]
          elif op[0] == 'setd':
            coll['m'][op[1]] = op[2]
          elif op[0] == 'bad_undeclared':
            coll['nope'] = 1
          elif op[0] == 'bad_nocoord':
            if kind == 's': continue
            coll['m'] = 3
          elif op[0] == 'bad_arity':
            if kind == 's': continue
            coll['m'][1, 2] = 3
          exc = None
        except Exception as e:
          exc = type(e).__name__
        if op[0].startswith('bad'):
          if exc not in ('NotAMeasurementError', 'InvalidDimensionsError'):
            bad.append((kind, val, xi, hist, 'bad op not rejected', exc))
          continue
        tv = xf(op[-1]) if xf else op[-1]
        key = 0 if kind == 's' else op[1]
        if key not in exp_vals: order.append(key)
        exp_vals[key] = tv
        if kind == 's' and val == 'raise':
          if (tv == 7) != (exc == 'Boom'): bad.append((kind, val, xi, hist, 'raise-at-assignment', exc))
      # end of phase for dimensioned
      end_exc = None
      if kind == 'd' and m.outcome is M.Outcome.PARTIALLY_SET:
        try: m.validate()
        except Exception as e: end_exc = type(e).__name__
      # oracle
      if not exp_vals: exp_out = 'UNSET'
      elif kind == 's':
        v = exp_vals[0]
        ok = {'none': True, 'range': 0 <= v <= 10, 'raise': v != 7}[val]
        exp_out = 'PASS' if ok else 'FAIL'
        exp_marg = val == 'range' and ok and (v <= 1 or v >= 9)
        if m.measured_value.value != v: bad.append((kind, val, xi, hist, 'value', m.measured_value.value, v))
        if m.marginal != exp_marg: bad.append((kind, val, xi, hist, 'marginal', m.marginal, exp_marg))
      else:
        rows = [(k, exp_vals[k]) for k in order]
        ok = {'none': True, 'range': all(0 <= r[1] <= 10 for r in rows), 'raise': not any(r[1] == 7 for r in rows)}[val]
        exp_out = 'PASS' if ok else 'FAIL'
        if m.measured_value.value != rows: bad.append((kind, val, xi, hist, 'value/order', m.measured_value.value, rows))
        if val == 'raise' and (not ok) != (end_exc == 'Boom'): bad.append((kind, val, xi, hist, 'raise-at-end', end_exc))
      if m.outcome.name != exp_out: bad.append((kind, val, xi, hist, 'outcome', m.outcome.name, exp_out))
print('histories', n, 'disagreements', len(bad))
seen = set()
for b in bad:
  k = (b[0], b[1], b[4])
  if k in seen: continue
  seen.add(k); print('  ', b)
