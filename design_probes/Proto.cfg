CONSTANTS Keys = {"a","b"} Vals = {"1","2"} N = 4
SPECIFICATION Spec
INVARIANT Emit
CHECK_DEADLOCK FALSE
