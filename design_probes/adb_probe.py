"""DFS over a reader and a writer thread on ONE real AdbStream over a
cooperative fake device.  Looks for deadlock / spurious timeouts."""
import sys, types, struct, threading, time, collections
sys.argv = sys.argv[:1]
for m in ('libusb1', 'usb1', 'M2Crypto'):
  sys.modules[m] = types.ModuleType(m)
sys.modules['libusb1'].LIBUSB_ERROR_TIMEOUT = -7
class USBError(Exception):
  def __init__(self, value): self.value = value
sys.modules['libusb1'].USBError = USBError
sys.modules['M2Crypto'].RSA = types.ModuleType('RSA')
import logging; logging.disable(logging.CRITICAL)
import sched_probe as sp
from openhtf.plugs.usb import adb_message, adb_protocol, usb_exceptions
M = adb_message.AdbMessage

def frame(cmd, a0, a1, data=''):
  m = M(cmd, a0, a1, data)
  return [m.header, data] if data else [m.header]

class Device:
  """Reactive fake: answers CNXN, OPEN->OKAY, host WRTE->OKAY; sends one
  unsolicited WRTE after the stream is open."""
  def __init__(self):
    self.rx = collections.deque(); self.pending = None; self.log = []
  def write(self, data, timeout_ms=None):
    if isinstance(data, bytes) and len(data) == 24:
      cmd, a0, a1, ln, ck, mg = struct.unpack('<6I', data)
      self.pending = (M.WIRE_TO_CMD[cmd], a0, a1)
      return
    cmd, a0, a1 = self.pending
    self.log.append((cmd, a0, a1, data))
    if cmd == 'CNXN': self.rx.extend(frame('CNXN', 1, 256, 'device:S:b'))
    elif cmd == 'OPEN':
      self.rx.extend(frame('OKAY', 77, a0)); self.rx.extend(frame('WRTE', 77, a0, 'abc'))
    elif cmd == 'WRTE': self.rx.extend(frame('OKAY', 77, a0))
  def read(self, length, timeout_ms=None):
    if not self.rx:
      ok = sp.SCHED.yield_('usb.read', cond=lambda: bool(self.rx),
                           timeout=None if timeout_ms is None else timeout_ms / 1000.0)
      if not ok:
        raise usb_exceptions.UsbReadFailedError(USBError(-7), 'timeout')
    return self.rx.popleft()
  def close(self): pass

def scenario(log, tmo):
  def main():
    dev = Device()
    conn = adb_protocol.AdbConnection.connect(dev, timeout_ms=1000)
    st = conn.open_stream('shell:x', timeout_ms=1000)
    def reader():
      try: log.append(('read', st.read(timeout_ms=tmo)))
      except Exception as e: log.append(('read-exc', type(e).__name__))
    def writer():
      try: st.write('xyz', timeout_ms=tmo); log.append(('write-ok',))
      except Exception as e: log.append(('write-exc', type(e).__name__))
    ts = [threading.Thread(target=reader, name='R'), threading.Thread(target=writer, name='W')]
    for t in ts: t.start()
    for t in ts: t.join()
  return main

def explore(bound, tmo, max_runs=20000):
  todo = [[]]; runs = 0; outcomes = collections.Counter(); wit = {}
  while todo and runs < max_runs:
    prefix = todo.pop(); decisions = []; state = {'last': None}
    def choose(en):
      names = [s.name for s, _ in en]; i = len(decisions)
      pick = prefix[i] if i < len(prefix) else (state['last'] if state['last'] in names else names[0])
      decisions.append((names, pick, state['last'])); state['last'] = pick
      for s, ok in en:
        if s.name == pick: return s, ok
      raise RuntimeError('divergence')
    log = []; s = sp.Sched(choose)
    try:
      s.run(scenario(log, tmo)); key = tuple(sorted(log))
    except sp.Deadlock as e:
      key = ('DEADLOCK', tuple(sorted(log)), str(e.args[0]))
    runs += 1; outcomes[key] += 1; wit.setdefault(key, [d[1] for d in decisions])
    def preempts(ds): return sum(1 for n, p, l in ds if l in n and p != l)
    for i in range(len(prefix), len(decisions)):
      names, pick, last = decisions[i]
      for alt in names:
        if alt != pick:
          nd = decisions[:i] + [(names, alt, last)]
          if preempts(nd) <= bound: todo.append([d[1] for d in nd])
  return runs, outcomes, wit

for tmo in (None, 2000):
  for bound in (0, 1):
    t0 = time.time()
    runs, outcomes, wit = explore(bound, tmo)
    print('timeout_ms=%s bound=%d runs=%d  %.1fs' % (tmo, bound, runs, time.time() - t0))
    for k, n in outcomes.items():
      print('   %5d x %s' % (n, k))
