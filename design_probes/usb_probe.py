import sys, types, struct, io
sys.argv = sys.argv[:1]
stub = types.ModuleType('libusb1')
stub.LIBUSB_ERROR_TIMEOUT = -7
class USBError(Exception):
  def __init__(self, value): self.value = value
stub.USBError = USBError
sys.modules['libusb1'] = stub; sys.modules['usb1'] = types.ModuleType('usb1')
m2 = types.ModuleType('M2Crypto'); m2.RSA = types.ModuleType('M2Crypto.RSA'); sys.modules['M2Crypto'] = m2; sys.modules['M2Crypto.RSA'] = m2.RSA
from openhtf.plugs.usb import adb_message, adb_protocol, usb_exceptions, fastboot_protocol
from openhtf.util import timeouts

M = adb_message.AdbMessage
def frame(cmd, a0, a1, data=''):
  m = M(cmd, a0, a1, data)
  return [m.header, data] if data else [m.header]

class FakeTransport:
  def __init__(self, script):
    self.rx = list(script)   # chunks the device will send
    self.tx = []
  def write(self, data, timeout_ms=None): self.tx.append(data)
  def read(self, length, timeout_ms=None):
    if not self.rx:
      raise usb_exceptions.UsbReadFailedError(USBError(-7), 'timeout')
    return self.rx.pop(0)
  def close(self): pass

# 1. framing round trip
t = FakeTransport([])
ad = adb_message.AdbTransportAdapter(t)
ad.write_message(M('WRTE', 1, 2, 'hello\x00\xff'), timeouts.PolledTimeout.from_millis(100))
print('tx chunks', t.tx)
t.rx = list(t.tx)
m = ad.read_message(timeouts.PolledTimeout.from_millis(100))
print('roundtrip', m.command, m.arg0, m.arg1, repr(m.data))
# corrupt checksum
hdr = bytearray(t.tx[0]); hdr[16] ^= 1
t.rx = [bytes(hdr), t.tx[1]]
try: ad.read_message(timeouts.PolledTimeout.from_millis(100)); print('ACCEPTED corrupt!')
except Exception as e: print('corrupt ->', type(e).__name__)
t.rx = [b'']
try: ad.read_message(timeouts.PolledTimeout.from_millis(100))
except Exception as e: print('empty ->', type(e).__name__)
t.rx = [t.tx[0][:10]]
try: ad.read_message(timeouts.PolledTimeout.from_millis(100))
except Exception as e: print('short ->', type(e).__name__)

# 2. connect + open + read + write + close
script = frame('CNXN', 0x01000000, 256, 'device:SER123:banner') \
       + frame('OKAY', 77, 1) \
       + frame('WRTE', 77, 1, 'abc') + frame('WRTE', 77, 1, 'def') \
       + frame('OKAY', 77, 1) \
       + frame('CLSE', 77, 1)
t = FakeTransport(script)
conn = adb_protocol.AdbConnection.connect(t, timeout_ms=1000)
print('connected', conn.maxdata, conn.systemtype, conn.serial, conn.banner)
st = conn.open_stream('shell:ls', timeout_ms=1000)
print('stream', st)
print('read', repr(st.read(timeout_ms=1000)))
print('read', repr(st.read(timeout_ms=1000)))
st.write('x' * 300, timeout_ms=1000) if False else st.write('xyz', timeout_ms=1000)
try:
  print('read', repr(st.read(timeout_ms=1000)))
except Exception as e: print('read after CLSE ->', type(e).__name__)
print('closed?', st.is_closed())
def dec(c):
  if len(c)==24 and isinstance(c, bytes):
    cmd,a0,a1,ln,ck,mg = struct.unpack('<6I', c); return (M.WIRE_TO_CMD.get(cmd), a0, a1, ln)
  return c
print('host sent', [dec(c) for c in t.tx])

# 3. fastboot
class FbUsb:
  def __init__(self, rx): self.rx=list(rx); self.tx=[]
  def read(self, n, timeout_ms=None): return self.rx.pop(0)
  def write(self, d, timeout_ms=None): self.tx.append(d)
  def close(self): pass
fastboot_protocol.FASTBOOT_DOWNLOAD_CHUNK_SIZE_KB = 1
u = FbUsb(['INFOhello', 'OKAYval'])
fb = fastboot_protocol.FastbootCommands(u)
infos=[]
print('getvar ->', fb.get_var('version', info_cb=infos.append), infos, u.tx)
u = FbUsb(['DATA00000a00', 'OKAY'])
fb = fastboot_protocol.FastbootCommands(u)
prog=[]
print('download ->', repr(fb.download(io.StringIO('z'*2560), source_len=2560, progress_callback=lambda c,t: prog.append((c,t)))), [len(x) for x in u.tx], prog)
