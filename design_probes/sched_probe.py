"""Throwaway feasibility probe: cooperative deterministic scheduler for real
threading-based code (openhtf executor), with virtual time.  Not the framework."""
import ctypes, sys, threading, time, _thread, collections, itertools

_real_allocate = _thread.allocate_lock
_real_time, _real_mono, _real_sleep = time.time, time.monotonic, time.sleep
_real_start, _real_join, _real_alive = (threading.Thread.start,
                                        threading.Thread.join,
                                        threading.Thread.is_alive)
_real_Event, _real_Condition, _real_RLock, _real_Lock = (
    threading.Event, threading.Condition, threading.RLock, threading.Lock)


class Deadlock(Exception):
  pass


class TState:
  def __init__(self, name):
    self.name = name
    self.sem = _real_allocate(); self.sem.acquire()
    self.blocked_on = None      # callable -> bool (enabled?) or None
    self.wake_at = None         # virtual deadline
    self.done = False
    self.pending_exc = None
    self.py = None


class Sched:
  def __init__(self, choose=None):
    self.now = 1000.0
    self.threads = {}            # ident-ish key -> TState (ordered)
    self.by_obj = {}
    self.ctl = _real_allocate(); self.ctl.acquire()
    self.current = None
    self.trace = []
    self.choose = choose or (lambda en: en[0])
    self.steps = 0
    self.active = False

  # ---- called from controlled threads
  def me(self):
    return self.by_obj.get(threading.current_thread())

  def yield_(self, why, cond=None, timeout=None):
    """Give control back to the scheduler; return True if cond satisfied,
    False on (virtual) timeout."""
    st = self.me()
    st.blocked_on = cond
    st.wake_at = None if timeout is None else self.now + timeout
    st.why = why
    self.ctl.release()          # wake controller
    st.sem.acquire()            # wait to be scheduled
    st.blocked_on = None
    exc, st.pending_exc = st.pending_exc, None
    if exc is not None:
      raise exc()
    return st.result

  # ---- controller loop (runs in the harness thread)
  def run(self, main_fn):
    self.active = True
    install(self)
    try:
      t = threading.Thread(target=main_fn, name='main')
      self._register(t)
      _real_start(t)
      self.ctl.release()
      while True:
        self.ctl.acquire()      # wait until the running thread yields/ends
        live = [s for s in self.threads.values() if not s.done]
        if not live:
          return
        en = []
        for s in live:
          if s.pending_exc is not None or s.blocked_on is None or s.blocked_on():
            en.append((s, True))
        if not en:
          timed = [s for s in live if s.wake_at is not None]
          if not timed:
            raise Deadlock([ (s.name, s.why) for s in live])
          self.now = min(s.wake_at for s in timed)
          en = [(s, False) for s in timed if s.wake_at <= self.now]
        s, ok = self.choose(en)
        s.result = ok
        self.steps += 1
        self.trace.append((s.name, getattr(s, 'why', 'start')))
        s.sem.release()
    finally:
      self.active = False
      uninstall()

  def _register(self, t):
    st = TState(t.name)
    st.why = 'start'
    self.threads[id(t)] = st
    self.by_obj[t] = st
    orig_run = t.run
    def run_wrapper():
      st.sem.acquire()          # wait for first scheduling
      try:
        exc, st.pending_exc = st.pending_exc, None
        if exc is None:
          orig_run()
      except SystemExit:
        pass
      finally:
        st.done = True
        self.ctl.release()
    t.run = run_wrapper
    return st


SCHED = None


def controlled():
  return SCHED is not None and SCHED.active and SCHED.me() is not None


class CoopLock:
  def __init__(self):
    self.owner = None
  def acquire(self, blocking=True, timeout=-1):
    if not controlled():
      raise RuntimeError('coop lock used by uncontrolled thread')
    s = SCHED
    s.yield_('lock.acquire')             # scheduling point before the op
    if self.owner is None:
      self.owner = s.me(); return True
    if not blocking:
      return False
    ok = s.yield_('lock.wait', cond=lambda: self.owner is None,
                  timeout=None if timeout is None or timeout < 0 else timeout)
    if ok:
      self.owner = s.me()
    return ok
  def release(self):
    self.owner = None
    if controlled():
      SCHED.yield_('lock.release')
  def locked(self):
    return self.owner is not None
  __enter__ = acquire
  def __exit__(self, *a):
    self.release()
  def _at_fork_reinit(self):
    self.owner = None


def Lock():
  return CoopLock() if controlled() and not _in_threading_init() else _real_allocate()


def _in_threading_init():
  f = sys._getframe(2)
  # Anything threading.py does on behalf of a Thread object itself
  # (_started event, its condition waiters) stays real.
  while f is not None and f.f_code.co_filename.endswith('threading.py'):
    if isinstance(f.f_locals.get('self'), threading.Thread):
      return True
    f = f.f_back
  return False


def RLock():
  if controlled():
    return threading._PyRLock()
  return _real_RLock()


def v_time():
  return SCHED.now if controlled() else _real_time()


def v_mono():
  return SCHED.now if controlled() else _real_mono()


def v_sleep(d):
  if controlled():
    SCHED.yield_('sleep', cond=lambda: False, timeout=max(d, 0))
  else:
    _real_sleep(d)


def t_start(self):
  if controlled():
    SCHED._register(self)
    _real_start(self)
    SCHED.yield_('thread.start')
  else:
    _real_start(self)


def t_alive(self):
  if SCHED is not None and self in SCHED.by_obj:
    return not SCHED.by_obj[self].done
  return _real_alive(self)


def t_join(self, timeout=None):
  if controlled() and self in SCHED.by_obj:
    st = SCHED.by_obj[self]
    SCHED.yield_('join', cond=lambda: st.done, timeout=timeout)
  else:
    _real_join(self, timeout)


class _AsyncExcShim:
  def __init__(self, real):
    self.real = real
  def __call__(self, tid, exc):
    tid = getattr(tid, 'value', tid)
    for t, st in SCHED.by_obj.items():
      if t.ident == tid and not st.done:
        st.pending_exc = exc if not hasattr(exc, 'value') else exc.value
        return 1
    return 0


def install(s):
  global SCHED
  SCHED = s
  threading.Lock = Lock
  threading._allocate_lock = Lock
  threading.RLock = RLock
  threading.Thread.start = t_start
  threading.Thread.join = t_join
  threading.Thread.is_alive = t_alive
  time.time, time.monotonic, time.sleep = v_time, v_mono, v_sleep
  import queue as _q
  _q.time = v_mono; threading._time = v_mono
  ctypes.pythonapi.PyThreadState_SetAsyncExc = _AsyncExcShim(
      ctypes.pythonapi.PyThreadState_SetAsyncExc)


def uninstall():
  global SCHED
  threading.Lock = _real_Lock
  threading._allocate_lock = _real_allocate
  threading.RLock = _real_RLock
  threading.Thread.start = _real_start
  threading.Thread.join = _real_join
  threading.Thread.is_alive = _real_alive
  time.time, time.monotonic, time.sleep = _real_time, _real_mono, _real_sleep
  import queue as _q
  _q.time = _real_mono; threading._time = _real_mono
  ctypes.pythonapi.PyThreadState_SetAsyncExc = (
      ctypes.pythonapi.PyThreadState_SetAsyncExc.real)
  SCHED = None


if __name__ == '__main__':
  import openhtf as htf
  from openhtf.util import console_output
  console_output.CLI_QUIET = True
  log = []

  def p1(test):
    log.append(('p1', time.time()))

  @htf.PhaseOptions(timeout_s=5)
  def hang(test):
    log.append(('hang.start', time.time()))
    time.sleep(1000)
    log.append(('hang.end', time.time()))

  def td(test):
    log.append(('td', time.time()))

  recs = []

  def main():
    t = htf.Test(p1, htf.PhaseGroup(main=[hang], teardown=[td]))
    t.add_output_callbacks(recs.append)
    log.append(('ret', t.execute()))

  for i in range(2):
    log.clear(); recs.clear()
    s = Sched()
    w0 = _real_time()
    s.run(main)
    print('run', i, 'wall %.3fs' % (_real_time() - w0), 'steps', s.steps,
          'vtime', s.now - 1000.0)
    print(' log', log)
    print(' outcome', recs[0].outcome, [(p.name, p.outcome.name) for p in recs[0].phases])
