"""Brute-force InRange / AllInRange / WithinPercent against an oracle written
from the C07 statement, over a small grid."""
import sys, math, itertools, copy
sys.argv = sys.argv[:1]
from openhtf.util import validators as V
G = [None, -2, -1, 0, 1, 2]
P = [-3, -2, -1.5, -1, 0, 0.5, 1, 2, 3, None, float('nan'), float('inf'), float('-inf'), True]
def ctor_ok(mn, mx, mmn, mmx):
  if mn is None and mx is None: return False
  if mn is not None and mx is not None and mn > mx: return False
  if mmn is not None and (mn is None or mmn < mn): return False
  if mmx is not None and (mx is None or mmx > mx): return False
  if mmn is not None and mmx is not None and mmn > mmx: return False
  return True
def passes(v, mn, mx):
  if v is None or (isinstance(v, float) and math.isnan(v)): return False
  return (mn is None or v >= mn) and (mx is None or v <= mx)
def marginal(v, mn, mx, mmn, mmx):
  if not passes(v, mn, mx): return False
  return (mmn is not None and mn <= v <= mmn) or (mmx is not None and mmx <= v <= mx)
bad = []; n = 0
for mn, mx, mmn, mmx in itertools.product(G, G, G, G):
  exp_ok = ctor_ok(mn, mx, mmn, mmx)
  for cls in ('InRange', 'AllInRange'):
    try:
      v = V.InRange(mn, mx, mmn, mmx) if cls == 'InRange' else V.AllInRangeValidator(mn, mx, mmn, mmx)
      got_ok = True
    except ValueError:
      got_ok = False
    n += 1
    if got_ok != exp_ok:
      bad.append((cls, 'ctor', (mn, mx, mmn, mmx), 'expected %s got %s' % (exp_ok, got_ok))); continue
    if not got_ok: continue
    for p in P:
      n += 1
      try:
        gp = v(p) if cls == 'InRange' else v([p])
      except Exception as e:
        gp = 'EXC:' + type(e).__name__
      ep = passes(p, mn, mx)
      if gp != ep and not (isinstance(gp, str) and ep is False):
        bad.append((cls, 'pass', (mn, mx, mmn, mmx), p, 'expected %s got %s' % (ep, gp)))
      try:
        gm = v.is_marginal(p) if cls == 'InRange' else v.is_marginal([p])
      except Exception as e:
        gm = 'EXC:' + type(e).__name__
      em = marginal(p, mn, mx, mmn, mmx)
      # statement: "a passing value is marginal exactly when ..." -> only compare for passing values
      if ep and gm != em:
        bad.append((cls, 'marginal', (mn, mx, mmn, mmx), p, 'expected %s got %s' % (em, gm)))
    # derived validators decide identically / print same limits
    if cls == 'InRange':
      for d in (copy.deepcopy(v), v.with_args(x=1)):
        if str(d) != str(v) or any(d(p) != v(p) for p in [-2, -1, 0, 1, 2]) or not (d == v):
          bad.append((cls, 'derived', (mn, mx, mmn, mmx)))
print('InRange/AllInRange cases', n, 'disagreements', len(bad))
seen = set()
for b in bad:
  k = (b[0], b[1], b[-1])
  if k in seen: continue
  seen.add(k); print('  ', b)

# WithinPercent
bad = []; n = 0
for e, pct, mp in itertools.product([-200, -100, 0, 100, 200], [0, 10, 50, 150, -10], [None, 0, 5, 10, 50]):
  exp_ok = pct >= 0 and not (mp is not None and mp >= pct)
  try:
    v = V.WithinPercent(e, pct, mp); got_ok = True
  except ValueError:
    got_ok = False
  n += 1
  if got_ok != exp_ok:
    bad.append(('ctor', (e, pct, mp), exp_ok, got_ok)); continue
  if not got_ok: continue
  tol = abs(e) * pct / 100.0
  mtol = abs(e) * mp / 100.0 if mp else None
  for p in [e - tol - 1, e - tol, e - tol + 0.5, e, e + tol - 0.5, e + tol, e + tol + 1, float('nan')]:
    n += 1
    ep = (not math.isnan(p)) and e - tol <= p <= e + tol
    gp = v(p)
    if gp != ep: bad.append(('pass', (e, pct, mp), p, ep, gp))
    try:
      gm = v.is_marginal(p)
    except Exception as ex:
      bad.append(('is_marginal raises ' + type(ex).__name__, (e, pct, mp), p)); gm = False
    if gm and not ep: bad.append(('marginal-outside-tolerance', (e, pct, mp), p))
print('WithinPercent cases', n, 'disagreements', len(bad))
for b in bad[:8]: print('  ', b)

# equals / regex
eq = V.equals('a.b')
print('equals(str):', {s: eq(s) for s in ['a.b', 'a.b\n', 'a.b\n\n', 'axb', 'a.bc', 'xa.b', '']})
print('equals(1,type=int) on "1":', V.equals(1, type=int)('1') if True else None)
