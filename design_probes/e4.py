import sys
sys.argv = sys.argv[:1]
import logging; logging.disable(logging.CRITICAL)
import openhtf as htf
from openhtf.core import measurements
from openhtf.util import console_output
console_output.CLI_QUIET = True
seen = {}
@htf.PhaseOptions(requires_state=True)
@htf.measures(measurements.Measurement('d').with_dimensions('x'), measurements.Measurement('s'))
def ph(state):
  seen['before'] = dict(state.running_phase_state.as_base_types()['measurements']['d'])
  state.test_api.measurements.d[1] = 5
  state.test_api.measurements.s = 3
  live = state.running_phase_state.as_base_types()['measurements']
  seen['live_d'] = dict(live['d']); seen['live_s'] = dict(live['s'])
  seen['mem_d'] = state.running_phase_state.measurements['d'].outcome.name
  seen['mem_s'] = state.running_phase_state.measurements['s'].outcome.name
t = htf.Test(ph); out = []
t.add_output_callbacks(out.append); t.execute()
for k, v in seen.items(): print(k, v)
print('final', out[0].as_base_types()['phases'][0]['measurements'])
