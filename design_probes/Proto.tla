---- MODULE Proto ----
EXTENDS Naturals, Sequences, TLC, Json, FiniteSets
CONSTANTS Keys, Vals, N
VARIABLES loaded, hist
vars == <<loaded, hist>>
NoVal == "none"
Init == loaded = [k \in Keys |-> NoVal] /\ hist = <<>>
Read(k) == loaded[k]
Load(k, v, ov) ==
  /\ loaded' = IF loaded[k] # NoVal /\ ~ov THEN loaded ELSE [loaded EXCEPT ![k] = v]
  /\ hist' = Append(hist, [op |-> "load", k |-> k, v |-> v, ov |-> ov, obs |-> [kk \in Keys |-> loaded'[kk]]])
Reset ==
  /\ loaded' = [k \in Keys |-> NoVal]
  /\ hist' = Append(hist, [op |-> "reset", obs |-> [kk \in Keys |-> loaded'[kk]]])
Next == /\ Len(hist) < N
        /\ \/ \E k \in Keys, v \in Vals, ov \in BOOLEAN : Load(k, v, ov)
           \/ Reset
Spec == Init /\ [][Next]_vars
Emit == Len(hist) = N => PrintT(<<"HIST", ToJson(hist)>>)
Inv == TRUE
====
