"""Two real tests run concurrently; does a log message of one run get lost
when the other run removes its record handler?  DFS with preemption bound 1."""
import sys, threading, time, logging
sys.argv = sys.argv[:1]
import sched_probe as sp
import openhtf as htf
from openhtf.util import console_output
console_output.CLI_QUIET = True

def phase_a(test):
  for i in range(2):
    test.logger.info('A-msg-%d', i)
def phase_b(test):
  for i in range(2):
    test.logger.info('B-msg-%d', i)

def scenario(log):
  def main():
    out = {}
    def run(tag, ph):
      t = htf.Test(ph)
      t.add_output_callbacks(lambda r: out.__setitem__(tag, r))
      t.execute()
    ta = threading.Thread(target=run, args=('A', phase_a), name='TA')
    tb = threading.Thread(target=run, args=('B', phase_b), name='TB')
    ta.start(); tb.start(); ta.join(); tb.join()
    for tag in 'AB':
      msgs = [r.message for r in out[tag].log_records if '-msg-' in r.message]
      log.append((tag, tuple(msgs)))
  return main

def explore(bound, max_runs):
  todo = [[]]; runs = 0; bad = []
  while todo and runs < max_runs:
    prefix = todo.pop()
    decisions = []; state = {'last': None}
    def choose(en):
      names = [s.name for s, _ in en]
      i = len(decisions)
      pick = prefix[i] if i < len(prefix) else (state['last'] if state['last'] in names else names[0])
      decisions.append((names, pick, state['last'])); state['last'] = pick
      for s, ok in en:
        if s.name == pick: return s, ok
      raise RuntimeError('divergence %s %s' % (pick, names))
    log = []
    s = sp.Sched(choose)
    try:
      s.run(scenario(log))
    except Exception as e:
      bad.append(('EXC %r' % e, None)); runs += 1; continue
    runs += 1
    want = [('A', ('A-msg-0', 'A-msg-1')), ('B', ('B-msg-0', 'B-msg-1'))]
    if log != want:
      bad.append((log, [d[1] for d in decisions]))
    def preempts(ds): return sum(1 for n, p, l in ds if l in n and p != l)
    for i in range(len(prefix), len(decisions)):
      names, pick, last = decisions[i]
      for alt in names:
        if alt != pick:
          nd = decisions[:i] + [(names, alt, last)]
          if preempts(nd) <= bound: todo.append([d[1] for d in nd])
  return runs, bad

t0 = time.time()
runs, bad = explore(int(sys.argv[1]) if len(sys.argv) > 1 else 1, 4000)
print('runs', runs, 'bad', len(bad), '%.1fs' % (time.time() - t0))
for b in bad[:3]:
  print(' ', b[0])
