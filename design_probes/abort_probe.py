"""Inject an atomic abort at every scheduling point k of a 3-phase test and
check: after abort() returned no (non-teardown) phase body starts."""
import sys, time, threading
sys.argv = sys.argv[:1]
import sched_probe as sp
import openhtf as htf
from openhtf.util import console_output
import logging
console_output.CLI_QUIET = True
logging.disable(logging.CRITICAL)

def run(k):
  log = []
  def mk(name):
    def body(test):
      log.append(('start', name))
      time.sleep(0)            # scheduling point inside the body
      log.append(('end', name))
    return htf.PhaseOptions(name=name)(body)
  def td(test):
    log.append(('start', 'td'))
  recs = []
  holder = {}
  def main():
    t = htf.Test(mk('a'), htf.PhaseGroup(main=[mk('b'), mk('c')], teardown=[td]), mk('d'))
    holder['t'] = t
    t.add_output_callbacks(recs.append)
    ab = threading.Thread(target=aborter, name='aborter')
    ab.start()
    log.append(('ret', t.execute()))
  def aborter():
    sp.SCHED.yield_('gate', cond=lambda: sp.SCHED.steps >= k and holder['t']._executor is not None)
    log.append(('abort.call',))
    holder['t'].abort_from_sig_int()
    log.append(('abort.ret',))
  def choose(en):
    # aborter has priority once its gate is open (atomic abort), else lowest-index
    for s, ok in en:
      if s.name == 'aborter' and getattr(s, 'why', '') != 'gate':
        return s, ok
    for s, ok in en:
      if s.name == 'aborter' and s.why == 'gate' and ok and s.blocked_on and s.blocked_on():
        return s, ok
    return en[0]
  s = sp.Sched(choose)
  try:
    s.run(main)
  except sp.Deadlock as e:
    return 'DEADLOCK', log, None, s.steps
  return 'ok', log, recs[0] if recs else None, s.steps

worst = []
maxk = 400
k = 0
seen = set()
while k < maxk:
  st, log, rec, steps = run(k)
  key = tuple(log)
  if key not in seen:
    seen.add(key)
    names = [e for e in log]
    bad = None
    if st != 'ok':
      bad = st
    elif ('abort.ret',) in log:
      i = log.index(('abort.ret',))
      late = [e for e in log[i+1:] if e[0] == 'start' and e[1] != 'td']
      if late: bad = 'body started after abort returned: %s' % late
      if rec is not None and rec.outcome.name != 'ABORTED': bad = (bad or '') + ' outcome=%s' % rec.outcome.name
    print('k=%3d steps=%3d %s %s%s' % (k, steps, rec.outcome.name if rec else None,
          [ '.'.join(e) if isinstance(e[-1], str) else 'ret=%s' % (e[-1],) for e in log],
          '   <<< ' + bad if bad else ''))
  if k > steps: break
  k += 1
