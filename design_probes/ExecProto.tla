---- MODULE ExecProto ----
(* Throwaway feasibility prototype of the Executor abstract machine. *)
EXTENDS Naturals, Sequences, TLC, Json
CONSTANT Programs
VARIABLES pi, stack, ret, recs, subs, open, last, calls, status
vars == <<pi, stack, ret, recs, subs, open, last, calls, status>>

Top == stack[Len(stack)]
Pop(s) == SubSeq(s, 1, Len(s) - 1)
Push(s, f) == Append(s, f)
ReplaceTop(s, f) == [s EXCEPT ![Len(s)] = f]
SubName(i) == IF i = 0 THEN "" ELSE open[i].name
SubFailed(i) == i > 0 /\ open[i].outcome = "FAIL"
Worse(a, b) == IF a = "TERMINAL" \/ b = "TERMINAL" THEN "TERMINAL" ELSE "CONTINUE"
NodeF(n, td, sub) == [t |-> "node", n |-> n, td |-> td, sub |-> sub]

Init == /\ pi \in 1..Len(Programs)
        /\ stack = <<NodeF(Programs[pi], FALSE, 0)>>
        /\ ret = "NONE" /\ recs = <<>> /\ subs = <<>> /\ open = <<>>
        /\ last = "NONE" /\ calls = <<>> /\ status = "run"

UN == UNCHANGED <<pi>>

\* ---- dispatch a node frame
PhaseStep(f, b) ==
       LET bad == b = "X" /\ f.sub = 0
           oc == CASE b = "C" -> "PASS" [] b = "F" -> "FAIL"
                   [] b = "X" -> IF bad THEN "ERROR" ELSE "FAIL"
                   [] b = "S" -> "ERROR" [] b = "E" -> "ERROR"
           term == b \in {"S", "E"} \/ bad
           kind == IF b = "S" THEN "STOP" ELSE "EXC"
       IN /\ calls' = Append(calls, [n |-> f.n.name, b |-> b, seen |-> Len(recs)])
          /\ recs' = Append(recs, [name |-> f.n.name, oc |-> oc, sub |-> SubName(f.sub)])
          /\ last' = IF term /\ last = "NONE" THEN kind ELSE last
          /\ open' = IF b = "X" /\ ~bad THEN [open EXCEPT ![f.sub].outcome = "FAIL"] ELSE open
          /\ ret' = IF term THEN "TERMINAL" ELSE "CONTINUE"
          /\ stack' = Pop(stack)
          /\ UNCHANGED <<subs, status>>

DoPhase(f) ==
  IF ~f.td /\ SubFailed(f.sub)
  THEN /\ recs' = Append(recs, [name |-> f.n.name, oc |-> "SKIP", sub |-> SubName(f.sub)])
       /\ ret' = "CONTINUE" /\ stack' = Pop(stack)
       /\ UNCHANGED <<subs, open, last, calls, status>>
  ELSE \E b \in f.n.beh : PhaseStep(f, b)

DoSeq(f) ==
  /\ stack' = ReplaceTop(stack, [t |-> "seq", ns |-> f.n.ch, i |-> 0, td |-> f.td,
                                 sub |-> f.sub, acc |-> "CONTINUE"])
  /\ ret' = "CONTINUE"   \* pretend child 0 returned CONTINUE: uniform advance
  /\ UNCHANGED <<recs, subs, open, last, calls, status>>

DoSubtest(f) ==
  /\ open' = Append(open, [name |-> f.n.name,
                           outcome |-> IF SubFailed(f.sub) THEN "FAIL" ELSE "PASS"])
  /\ stack' = Push(ReplaceTop(stack, [t |-> "subtest"]),
                   [t |-> "seq", ns |-> f.n.ch, i |-> 0, td |-> f.td,
                    sub |-> Len(open) + 1, acc |-> "CONTINUE"])
  /\ ret' = "CONTINUE"
  /\ UNCHANGED <<recs, subs, last, calls, status>>

DoGroup(f) ==
  /\ stack' = ReplaceTop(stack, [t |-> "group", g |-> f.n, stage |-> "start",
                                 td |-> f.td, sub |-> f.sub,
                                 skipTd |-> SubFailed(f.sub), mainRet |-> "CONTINUE"])
  /\ ret' = "CONTINUE"
  /\ UNCHANGED <<recs, subs, open, last, calls, status>>

Dispatch ==
  /\ ret = "NONE" /\ Top.t = "node"
  /\ LET f == Top IN
     CASE f.n.k = "phase" -> DoPhase(f)
       [] f.n.k = "seq" -> DoSeq(f)
       [] f.n.k = "subtest" -> DoSubtest(f)
       [] f.n.k = "group" -> DoGroup(f)

\* ---- a child returned `ret` to the top frame
SeqFrame(ns, td, sub) == [t |-> "seq", ns |-> ns, i |-> 0, td |-> td, sub |-> sub, acc |-> "CONTINUE"]

RetSeq(f) ==
  LET acc == Worse(f.acc, ret) IN
  IF (~f.td /\ ret = "TERMINAL") \/ f.i = Len(f.ns)
  THEN \* sequence over: abortable stops at first terminal, teardown runs all
       /\ stack' = Pop(stack)
       /\ ret' = IF f.td THEN acc ELSE ret
       /\ UNCHANGED <<recs, subs, open, last, calls, status>>
  ELSE /\ stack' = Push(ReplaceTop(stack, [f EXCEPT !.i = f.i + 1, !.acc = acc]),
                        NodeF(f.ns[f.i + 1], f.td, f.sub))
       /\ ret' = "NONE"
       /\ UNCHANGED <<recs, subs, open, last, calls, status>>

RetSubtest(f) ==
  LET o == open[Len(open)]
      oc == IF ret = "TERMINAL" THEN "STOP" ELSE o.outcome IN
  /\ subs' = Append(subs, [name |-> o.name, oc |-> oc])
  /\ open' = Pop(open)
  /\ stack' = Pop(stack)
  /\ UNCHANGED <<ret, recs, last, calls, status>>

RetGroup(f) ==
  CASE f.stage = "start" ->
         IF Len(f.g.setup) > 0
         THEN /\ stack' = Push(ReplaceTop(stack, [f EXCEPT !.stage = "setup"]),
                               SeqFrame(f.g.setup, f.td, f.sub))
              /\ UNCHANGED <<ret, recs, subs, open, last, calls, status>>
         ELSE /\ stack' = ReplaceTop(stack, [f EXCEPT !.stage = "setupdone"])
              /\ UNCHANGED <<ret, recs, subs, open, last, calls, status>>
    [] f.stage = "setup" ->
         IF ret # "CONTINUE"
         THEN /\ stack' = Pop(stack) /\ UNCHANGED <<ret, recs, subs, open, last, calls, status>>
         ELSE /\ stack' = ReplaceTop(stack, [f EXCEPT !.stage = "setupdone",
                                             !.skipTd = f.skipTd \/ SubFailed(f.sub)])
              /\ UNCHANGED <<ret, recs, subs, open, last, calls, status>>
    [] f.stage = "setupdone" ->
         /\ stack' = Push(ReplaceTop(stack, [f EXCEPT !.stage = "main"]),
                          SeqFrame(f.g.main, f.td, f.sub))
         /\ ret' = "CONTINUE"
         /\ UNCHANGED <<recs, subs, open, last, calls, status>>
    [] f.stage = "main" ->
         /\ stack' = Push(ReplaceTop(stack, [f EXCEPT !.stage = "td", !.mainRet = ret]),
                          SeqFrame(f.g.tdn, ~f.skipTd, f.sub))
         /\ ret' = "CONTINUE"
         /\ UNCHANGED <<recs, subs, open, last, calls, status>>
    [] f.stage = "td" ->
         /\ stack' = Pop(stack)
         /\ ret' = Worse(f.mainRet, ret)
         /\ UNCHANGED <<recs, subs, open, last, calls, status>>

Return ==
  /\ ret # "NONE" /\ Len(stack) > 0
  /\ LET f == Top IN
     CASE f.t = "seq" -> RetSeq(f)
       [] f.t = "subtest" -> RetSubtest(f)
       [] f.t = "group" -> RetGroup(f)

Outcome ==
  IF last = "STOP" THEN "FAIL" ELSE IF last = "EXC" THEN "ERROR"
  ELSE IF recs = <<>> THEN "PASS"
  ELSE IF \E i \in 1..Len(recs) : recs[i].oc = "FAIL" THEN "FAIL"
  ELSE IF \A i \in 1..Len(recs) : recs[i].oc = "SKIP" THEN "ERROR"
  ELSE IF \E i \in 1..Len(subs) : subs[i].oc = "FAIL" THEN "FAIL"
  ELSE "PASS"

Finish == /\ status = "run" /\ Len(stack) = 0
          /\ status' = Outcome
          /\ UNCHANGED <<stack, ret, recs, subs, open, last, calls>>

Next == (Dispatch \/ Return \/ Finish) /\ UN
Spec == Init /\ [][Next]_vars

Emit == status # "run" =>
  PrintT(<<"HIST", ToJson([p |-> pi, calls |-> calls, recs |-> recs, subs |-> subs, oc |-> status])>>)

\* C01-ish: PASS only if no FAIL/ERROR record
NoFalsePass == status = "PASS" => \A i \in 1..Len(recs) : recs[i].oc \in {"PASS", "SKIP"}
\* C03-ish is checked in the real spec with ghosts.
====
