"""Random operation sequences on fresh _Configuration instances vs a reference
model written from the C20 statement."""
import sys, random, io, argparse
sys.argv = sys.argv[:1]
from openhtf.util import configuration as C
KEYS = ['kd', 'kn', 'ku', 'kf']      # declared+default, declared, undeclared, flag-provided(declared)
VALS = [1, 'two', None, [3]]
def fresh():
  c = C._Configuration()
  c.load_flag_values(argparse.Namespace(config_value=['kf=flagval', 'ku=flagundeclared']))
  c.declare('kd', 'doc', default_value='dflt'); c.declare('kn'); c.declare('kf', default_value='kfdef')
  model = {'decl': {'kd': ('D', 'dflt'), 'kn': ('N', None), 'kf': ('D', 'kfdef')},
           'loaded': {}, 'flags': {'kf': 'flagval', 'ku': 'flagundeclared'}}
  return c, model
def m_read(m, k):
  if k not in m['decl']: return ('UndeclaredKeyError',)
  if k in m['flags']: return ('ok', m['flags'][k])
  if k in m['loaded']: return ('ok', m['loaded'][k])
  if m['decl'][k][0] == 'D': return ('ok', m['decl'][k][1])
  return ('UnsetKeyError',)
def c_read(c, k, how):
  try:
    if how == 'item': return ('ok', c[k])
    if how == 'attr': return ('ok', getattr(c, k))
  except Exception as e:
    return (type(e).__name__,)
def observe(c, m, step, ops, bad):
  snap = c._asdict()
  for k in KEYS:
    exp = m_read(m, k)
    for how in ('item', 'attr'):
      got = c_read(c, k, how)
      if got != exp: bad.append((step, ops[-3:], k, how, 'exp', exp, 'got', got))
    has = (k in c)
    if has != (exp[0] == 'ok'): bad.append((step, ops[-3:], k, 'contains', has, exp))
    if k in m['decl']:
      if (k in snap) != (exp[0] == 'ok') or (exp[0] == 'ok' and snap[k] != exp[1]):
        bad.append((step, ops[-3:], k, '_asdict', snap.get(k, '<absent>'), exp))
rnd = random.Random(7); bad = []; nops = 0
for trial in range(3000):
  c, m = fresh(); ops = []
  for step in range(8):
    op = rnd.choice(['load', 'load_noov', 'load_undecl', 'reset', 'save_restore', 'save_restore_raise', 'redeclare', 'setattr'])
    k = rnd.choice(KEYS); v = rnd.choice(VALS); ops.append((op, k, v)); nops += 1
    try:
      if op in ('load', 'load_noov', 'load_undecl'):
        ov = op != 'load_noov'; allow = op == 'load_undecl'
        c.load_from_dict({k: v}, _override=ov, _allow_undeclared=allow)
        if k in m['decl'] or allow:
          if not (k in m['loaded'] and not ov): m['loaded'][k] = v
      elif op == 'reset':
        c.reset(); m['loaded'] = {}
      elif op in ('save_restore', 'save_restore_raise'):
        saved = dict(m['loaded'])
        def inner():
          c.load_from_dict({'kn': 'inner'}); m['loaded']['kn'] = 'inner'
          observe(c, m, step, ops, bad)
          if op == 'save_restore_raise': raise RuntimeError('x')
        if k in m['decl']: m['loaded'][k] = v      # decorator kwargs are loaded (override=True)
        try: c.save_and_restore(inner, **({k: v} if k in m['decl'] else {}))()
        except RuntimeError: pass
        m['loaded'] = saved
      elif op == 'redeclare':
        try: c.declare(k); 
        except C.KeyAlreadyDeclaredError: assert k in m['decl']
        else:
          assert k not in m['decl'], ('redeclare allowed', k); m['decl'][k] = ('N', None)
      elif op == 'setattr':
        try: setattr(c, k, v); bad.append((step, ops[-3:], 'setattr allowed'))
        except AttributeError: pass
    except Exception as e:
      bad.append((step, ops[-3:], 'EXC', repr(e)))
    observe(c, m, step, ops, bad)
print('operations', nops, 'disagreements', len(bad))
seen = set()
for b in bad:
  k = str(b[2:5])
  if k in seen: continue
  seen.add(k); print('  ', b)
  if len(seen) > 8: break
