import time, sys, logging
import openhtf as htf
from openhtf.core import test_record
from openhtf.util import configuration
CONF = configuration.CONF

def p1(test): pass
def p2(test): return htf.PhaseResult.FAIL_AND_CONTINUE
recs=[]
t0=time.time()
N=200
for i in range(N):
    t=htf.Test(p1,p2)
    t.add_output_callbacks(recs.append)
    t.execute()
dt=time.time()-t0
print('per run ms', dt/N*1000, recs[-1].outcome)

# C01 suspected defect: stop_on_first_failure + run_if False first phase
ran=[]
@htf.PhaseOptions(run_if=lambda: False)
def skipped(test): ran.append('skipped')
def second(test): ran.append('second'); return htf.PhaseResult.FAIL_AND_CONTINUE
t=htf.Test(skipped, second)
t.configure(stop_on_first_failure=True)
recs=[]
t.add_output_callbacks(recs.append)
r=t.execute()
print('C01 defect: execute() ->', r, 'outcome', recs[-1].outcome, 'ran', ran, 'phases', len(recs[-1].phases))
