#!/usr/bin/env python3
"""Confirms a seeded change produced in a scratch worktree and stores it under
/verif/seeded/<sid>/ (patch.diff, demo.py, MUTANT.md, meta.json).
usage: tools/seed.py <worktree> <sid> <property> [checks to run, default = property]"""
import json
import os
import subprocess
import sys

wt, sid, prop = sys.argv[1:4]
checks = sys.argv[4:] or [prop]
dst = '/verif/seeded/%s' % sid
os.makedirs(dst, exist_ok=True)
run = lambda cmd, **kw: subprocess.run(cmd, shell=True, capture_output=True, text=True, **kw)
patch = run('git -C %s diff -- openhtf' % wt).stdout
assert patch.strip(), 'no change in worktree'
open(dst + '/patch.diff', 'w').write(patch)
for f in ('demo.py', 'MUTANT.md'):
  if os.path.exists('%s/%s' % (wt, f)):
    open('%s/%s' % (dst, f), 'w').write(open('%s/%s' % (wt, f)).read())
env = 'cd %s && PYTHONPATH=%s PYTHONDONTWRITEBYTECODE=1' % (wt, wt)
d_with = run('%s timeout 120 /venv/bin/python demo.py' % env)
open(dst + '/patch.diff').close(); run('git -C %s apply -R %s/patch.diff' % (wt, dst))
d_without = run('%s timeout 120 /venv/bin/python demo.py' % env)
run('git -C %s apply %s/patch.diff' % (wt, dst))
suite = run('cd %s && /venv/bin/python -m pytest -q -p no:cacheprovider --timeout=900 --continue-on-collection-errors 2>&1 | tail -1' % wt)
meta = dict(property=prop, demo_with_change=dict(rc=d_with.returncode, out=(d_with.stdout + d_with.stderr)[-300:]),
            demo_without_change=dict(rc=d_without.returncode, out=(d_without.stdout + d_without.stderr)[-200:]),
            suite_with_change=suite.stdout.strip(), checks={})
ok = d_with.returncode != 0 and d_without.returncode == 0 and '307 passed' in suite.stdout
meta['confirmed'] = ok
print('confirmed' if ok else 'NOT CONFIRMED', meta['demo_with_change']['rc'], meta['demo_without_change']['rc'], suite.stdout.strip())
for c in checks:
  r = run('cd /verif && VERIF_REPO=%s timeout 3000 ./check %s --tier quick' % (wt, c))
  viol = [l for l in r.stdout.splitlines() if l.startswith('  what:')]
  meta['checks'][c] = dict(rc=r.returncode, violations=viol[:6])
  print(c, 'rc=%d' % r.returncode, viol[:3])
  # restore the evidence file of the unchanged tree
json.dump(meta, open(dst + '/meta.json', 'w'), indent=1)
