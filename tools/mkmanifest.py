#!/usr/bin/env python3
"""Regenerates MANIFEST.json from the table below (single source of truth)."""
import json
import os

ROOT = os.path.dirname(os.path.dirname(os.path.abspath(__file__)))

CHECKS = {
    # id: (technique, level text, level note, design ref)
    'C20': ('TLA+ spec Config.tla checked by TLC; TLC-emitted histories replayed on real _Configuration (spec->code conformance)',
            'TLC proves Precedence/ViewsAgree/RestoreExact/... on Config.tla exhaustively for 2 keys x 2 values; every TLC-enumerated '
            'operation history up to the bound plus seeded random walks is replayed on the real class and every read API is compared '
            'with the model after every operation',
            'trusted: TLC, the ~100-line replay driver, value concretisation families; flags injected via load_flag_values()',
            'DESIGN.md 5/C20'),
}

_EXEC_NOTE = ('trusted: TLC, the program builder / projection (vf/build.py), the comparison (checks/execlib.py), the cooperative '
              'scheduler for timeout/abort scenarios (stdlib entry points patched during a run, no openhtf code replaced)')
CHECKS.update({
    'C01': ('TLA+ spec Executor.tla (invariants NoFalsePass, Converse) checked by TLC; TLC-emitted scenarios replayed on the real executor',
            'TLC checks NoFalsePass/Converse on every program of the families (settings x trees x behaviours) and emits every complete '
            'scenario; each is run on the real Test/TestExecutor with scripted bodies and outcome, return value, executor-thread failure '
            'and the statement of C01 itself are evaluated on the real record', _EXEC_NOTE, 'DESIGN.md 5/C01'),
    'C02': ('TLA+ spec Executor.tla as executable reading of docs/event_sequence.md; exhaustive spec->code replay with conformance as the verdict',
            'all node trees up to the bound (sequence/subtest/group/branch/checkpoint/phase) x behaviour assignments enumerated by TLC; '
            'body order/multiplicity, cumulative record counts at each body start and the four record lists must equal the model', _EXEC_NOTE,
            'DESIGN.md 5/C02'),
    'C03': ('TLA+ spec Executor.tla (TeardownOnce, NotEnteredNoRun, PlugTdAfterNodes) checked by TLC; scenarios incl. abort/timeout replayed under a deterministic scheduler',
            'group nestings x behaviours incl. timeout and an operator abort during any body; TLC checks the teardown invariants on the model, '
            'every scenario is replayed on the real executor (virtual time) and the teardown rules are evaluated on the real call log', _EXEC_NOTE,
            'DESIGN.md 5/C03'),
    'C05': ('TLA+ spec Executor.tla (Invocation/ShouldRepeat decision table, AtMostLimit, OneRecordPerInvocation) checked by TLC; every row replayed',
            'option vectors x positions x per-invocation (result, measurement status, diagnoser codes) sequences up to the repeat limit enumerated '
            'by TLC and replayed; phase records (outcome, result, diagnosis results), invocation counts compared with the model', _EXEC_NOTE,
            'DESIGN.md 5/C05'),
    'C08': ('TLA+ spec Executor.tla plug lifecycle actions (AtMostOneInstance, TornDownOnce) checked by TLC; scenarios with fault vectors replayed',
            'plug-to-phase assignments x constructor/tearDown fault vectors x phase behaviours enumerated by TLC; instrumented plug classes log '
            'ctor/tearDown/instance ids; lifecycle rules evaluated on the real event log and compared with the model', _EXEC_NOTE,
            'DESIGN.md 5/C08'),
    'C09': ('TLA+ spec Lifecycle.tla (NoLeak, CallbacksInOrder, AllCallbacksAtEnd, OverlapDisturbsNothing, ReturnIffPass) checked by TLC; TLC-emitted execute() histories replayed on one real Test object',
            'every history of <=3 execute() calls (8 exit paths x raising-callback subsets x overlapping call {none, while running, while finalizing} x dut id) enumerated by TLC is replayed '
            'on a single real Test object; callbacks snapshot the record they receive (finality, times, dut id, metadata, phases); Test.state, '
            'TEST_INSTANCES and the openhtf logger handlers are inspected after every call; the record clauses are also judged on every schedule of the single-abort sweep '
            '(abort at every scheduling point, deterministic scheduler) and on runs with real threads and a real SIGINT delivered while execute() waits for the executor', _EXEC_NOTE, 'DESIGN.md 5/C09'),
    'C06': ('TLA+ spec Measurement.tla (OutcomeFormula, MarginalFormula, NoPartiallySet, OrderStable, RejectedChangeNothing) checked by TLC; emitted assignment histories replayed in real phases',
            'all histories of <=3 (quick) / <=4 (thorough) body statements x 8 validator lists x 3 transforms on a scalar and a dimensioned measurement, '
            'enumerated by TLC; each runs as the body of a real phase; in-memory outcome/marginal/recorded value compared with the model after every '
            'statement and in the phase record; exceptions surfaced to the body and the phase result compared',
            'trusted: TLC, checks/measlib.py (abstract validator callables, value families incl. None/NaN/str/10**30), packing of histories into one test run',
            'DESIGN.md 5/C06'),
    'C10': ('TLA+ specs Measurement.tla (Read action) and RecordView.tla (ViewCoherent, EveryListRepresented, value-kind table) checked by TLC; emitted histories, record shapes and table rows replayed',
            'live view and record rendering compared with the in-memory measurements after every TLC-emitted history; every record list of records '
            'produced by Executor-family programs must be represented entry by entry in as_base_types(); OutputToJSON output parsed strictly and '
            'compared with the base-type view; value-kind table (11 kinds x 5 containers x allow_nan) and attachment payload classes replayed',
            'trusted: TLC, checks/c10.py projections; record lists compared on identifying fields, float/base64 byte fidelity only on the concretisation set',
            'DESIGN.md 5/C10'),
    'C07': ('TLA+ spec Validators.tla: order-abstract decision tables transcribed from the statement, table invariants checked by TLC, every row replayed under several concretisations',
            'every limit tuple over a 5-point ordered grid (6^4 rows) x 11 probe positions for in_range / all_in_range, 150 within_percent rows, string/regex, '
            'equality-dispatch and pivot tables are emitted by TLC and concretised with ints, floats and their nextafter neighbours, +-inf, +-0.0, numeric '
            'strings with type=, ints x 10**30 and ints beyond float range; constructor, __call__, is_marginal, str, ==, deepcopy, with_args compared',
            'trusted: TLC, the concretisation tables in checks/c07.py (only comparisons exact in binary floating point are generated)',
            'DESIGN.md 5/C07'),
    'C13': ('TLA+ spec AdbFraming.tla: corruption table + two-writer/two-reader lock protocol checked by TLC (and shown to fail without locks); table rows replayed and the real adapter explored by preemption-bounded DFS under a deterministic scheduler',
            'every (command x corruption x payload length) row of the table with 3 argument vectors and payloads over {0x00,0xff,0x0a} (thorough: 4096-byte payloads) is written '
            'through and fed back into the real AdbTransportAdapter; all interleavings of two writers / two readers with <=2 (quick) / <=3 (thorough) preemptions are executed on '
            'the real adapter and judged against NoInterleaveOnWire / WholeFramePerReader',
            'trusted: TLC, vf/sched.py + vf/explore.py (preemption only at synchronisation operations and transport calls), the fake chunk transport', 'DESIGN.md 5/C13'),
    'C16': ('TLA+ spec Fastboot.tla (SinglePacketCommand, ChunkAtMostK, ExactImageInOrder, Contiguous, ProgressCumulative, ...) checked by TLC for every device script; every run replayed on the real FastbootCommands',
            'all device response scripts over {INFO,OKAY,DATA(match),DATA(mismatch),FAIL,junk} up to length 3 (quick) / 4 (thorough) x 8 commands / 8 image sizes around multiples of the '
            'chunk size; packets, chunk boundaries, callback calls, return values and exception classes compared with the model', 
            'trusted: TLC, the scripted fake bootloader; chunk size set through the module constant that the --fastboot_download_chunk_size_kb flag targets', 'DESIGN.md 5/C16'),
    'C14': ('TLA+ specs AdbMux.tla (FIFO exactly-once, acks, chunking) and ReadUntil.tla (PlusCal reader-election protocol, Termination under fairness) and ReadForStream.tla (reader election across streams, queue re-check) checked by TLC; TLC-emitted multiplexer histories (incl. partial reads read(n) of multi-symbol messages) replayed; real reader/writer threads explored by preemption-bounded DFS under a deterministic scheduler',
            'TLC: AdbMux invariants for 2-3 streams with arbitrary device message interleavings; ReadUntil terminates (the pinned protocol and the half repair deadlock in the same model). '
            'Every emitted history is replayed on the real AdbConnection over a reactive fake device (results, data, every host message compared). Reader/writer threads on the real code '
            'are explored with <=1 (quick) / <=2 (thorough) preemptions in four scenarios with and without timeouts (the 10 ms queue poll may expire early); each run is judged on deadlock, spurious timeouts, delivery and ack counts',
            'trusted: TLC, checks/muxlib.py fake device, vf/sched.py + vf/explore.py (preemption at synchronisation operations and transport calls only)', 'DESIGN.md 5/C14'),
    'C15': ('TLA+ specs AdbConnect.tla (handshake automaton) and AdbMux.tla (id allocator, open/close/remote-close) checked by TLC; every emitted handshake run and open/close history replayed on the real AdbConnection',
            'all device reply scripts of length <=5 over {CNXN, malformed CNXN, AUTH token, other AUTH, noise, silence} x 0-2 keys (11 718 runs): connection attributes, signed tokens, key order, '
            'public-key offer, exception classes; open/close/remote-close/illegal-packet histories with id limits 3-6 (exhaustion, reuse, wrap-around), thorough: production limit wrapped by real open/close pairs',
            'trusted: TLC, scripted fake device; STREAM_ID_LIMIT module constant set to the model constant in quick', 'DESIGN.md 5/C15'),
    'C18': ('TLA+ (PlusCal) spec Subscribe.tla: NoLostUpdate, StaysSet, WakesAll, Termination checked by TLC; executions of the real mixin under a deterministic scheduler validated by TLC against Subscribe_trace.tla (trace validation)',
            'TLC: 2 watchers x 2 updaters x 2 changes, safety + termination under weak fairness (snapshot-before-register variant violates NoLostUpdate). Real code: every interleaving with <=1 (quick) / '
            '<=2 (thorough, capped) preemptions of the four threads on the real SubscribableStateMixin; each run is recorded (lock acquire/release, snapshot, change, event set, wake-up) and the batch is '
            'validated by one TLC run re-using Subscribe\'s actions; plus whole test runs with two watcher threads under seeded random schedules and in-body probes for measurement/log/dut_id notifications',
            'trusted: TLC, vf/sched.py (cooperative primitives log lock and event operations), vf/explore.py, vf/tracecheck.py', 'DESIGN.md 5/C18'),
    'C12': ('TLA+ specs PhaseTimeout.tla (discrete-time deadline polling) and KillableThread.tla (PlusCal run/kill protocol, Termination) checked by TLC; timeout rows replayed on the real executor in virtual time; a real KillableThread explored by preemption-bounded DFS',
            'every (timeout, duration incl. never-returning, linger of the finished thread, body result) row is run through the real executor under virtual time inside a group with teardown phase and plug: phase result, run outcome, teardown, plug '
            'tearDown and the time the executor proceeds; all interleavings (<=3 / <=4 preemptions) of start(), kill() and the thread on a real KillableThread subclass judged against KillBeforeStart / '
            'KillAfterBodyNoEffect / ConfinedToBody / FlagBeforeLockMeansNoBody; late effects of an abandoned body probed',
            'trusted: TLC, vf/sched.py virtual time and async-exception shim (delivery at scheduling points only)', 'DESIGN.md 5/C12'),
    'C04': ('TLA+ (PlusCal) spec AbortHandshake.tla (AtMostOneBody, NoStartAfterAbortReturned, NoBodyAfterFinalize, AbortedWins, TeardownAllRun, ExecReturns, AbortsReturn) checked by TLC; whole aborted runs of the real executor explored under a deterministic scheduler with simulated SIGINT and judged against the same formulas',
            'TLC: executor / phase threads / two aborters at flag-and-lock granularity, safety + liveness; the originally pinned protocol violates NoStartAfterAbortReturned in the same model. Real code: 5 programs '
            '(sequence, group+plug, repeat, subtest, test_start) x abort source (Test.handle_sig_int run on the execute() thread at a scheduler-chosen point, or another thread) x 1-2 aborts; DFS with <=1 preemption '
            '(capped) + seeded random schedules; each run judged on return, body overlap, late starts, outcome, callbacks, teardown, clean-up',
            'trusted: TLC, vf/sched.py (signal delivery and preemption at synchronisation operations, flag reads and body points only), the event-log judge in checks/c04.py', 'DESIGN.md 5/C04'),
    'C17': ('TLA+ spec AtomicPublish.tla (AtomicDest as a state invariant = every crash point) checked by TLC; recorded file-system operation sequences of the real callbacks validated by TLC (trace validation); destination inspected after killing a forked child at every prefix',
            'OutputToFile (chunked serializer, default pickle), OutputToJSON and util.atomic_write x faults {none, serializer raises after k chunks, k-th write raises, close raises} x {no previous file, previous file}: '
            'the operation sequence (create/write/close/rename/remove) is recorded and TLC checks AtomicDest after every operation and SuccessPublishes/FailureKeepsOld at the end; the model of the file system is bound '
            'to the real one by really killing a forked child after each operation',
            'trusted: TLC, vf/fsrec.py (wraps tempfile/open/os.rename/os.remove in the harness process), same-file-system staging directory; power loss (unsynced data) out of scope', 'DESIGN.md 5/C17'),
    'C19': ('TLA+ specs Logs.tla (routing by logger name/uid over start/end/log histories, redaction table) and LogsWalk.tla (handler-list walk vs removal) checked by TLC; emitted histories replayed on the real logs functions; real handler removal explored against a concurrent log call by preemption-bounded DFS',
            'every history of <=5 start/end/log operations over two prefix-related uids and 10 logger names (100 000 histories) is replayed with real TestRecords and the real handler/filter/loggers: messages captured per run '
            '(once, in order, no foreign), record fields, handler count after every operation; LogsWalk: copy-on-write holds, in-place removal loses the message (TLC) and the real remove_record_handler is explored with '
            'logging\'s own locks as scheduling points; two concurrent whole runs under random schedules; 11 message/argument shapes through the real redaction filter',
            'trusted: TLC, vf/sched.py (logging locks as scheduling points), the uid concretisation (no dots, as make_uid produces)', 'DESIGN.md 5/C19'),
    'C11': ('TLA+ spec Isolation.tla (heap of descriptor values, NoMutationOfOperands) checked by TLC; every emitted derive/decorate/nest/execute history replayed on real descriptors with all objects re-projected and fingerprinted after every operation; repeated and concurrent runs',
            'all histories of <=4 (thorough 5) operations {wrap_or_copy, with_args, PhaseOptions, measures, diagnose, plug, PhaseSequence, PhaseGroup, collection.with_args, execute} over <=4 objects; the value of each new '
            'object must equal the model\'s, no operation may change the projection or the deep structural fingerprint of any object created earlier; one Test executed three times (fresh UNSET measurements, empty state '
            'dict and diagnoses store, record depends only on that run); two tests sharing a phase object executed concurrently under seeded random schedules (no cross-talk in measurements, attachments, state dict, diagnoses, logs)',
            'trusted: TLC, the projection / fingerprint functions in checks/c11.py, vf/sched.py for the concurrent runs', 'DESIGN.md 5/C11'),
})

NOT_APPLICABLE = {
}

ALL = ['C%02d' % i for i in range(1, 21)]


def main():
  checks = []
  for pid in ALL:
    if pid not in CHECKS:
      continue
    tech, text, note, ref = CHECKS[pid]
    checks.append(dict(
        property_id=pid,
        quick_cmd='./check %s --tier quick' % pid,
        thorough_cmd='./check %s --tier thorough' % pid,
        evidence_file='/verif/evidence/%s.json' % pid,
        replay_cmd_template='./check %s --replay {path}' % pid,
        engine='tlc+replay',
        level_claimed=dict(category='model_checking', text=text, design_ref=ref),
        level_note=note,
        technique=tech))
  na = [dict(property_id=p, reason=NOT_APPLICABLE.get(p, 'check not built yet (work in progress); see DESIGN.md 10'))
        for p in ALL if p not in CHECKS]
  m = dict(
      version=1,
      setup_cmd='./setup.sh',
      hooks=dict(guard='OPENHTF_VERIF',
                 enable='checks run the working tree of /repo directly (PYTHONPATH=/repo, OPENHTF_VERIF=1); no build step',
                 baseline_off_cmd='cd /repo && env -u OPENHTF_VERIF /venv/bin/python -m pytest -ra -q -p no:cacheprovider --timeout=900 --continue-on-collection-errors',
                 source_commits=[], add_only=True),
      engines=[dict(name='tlc+replay', path='/verif/vf',
                    serves_properties=sorted(CHECKS),
                    kind_free_text='TLA+ specifications under /verif/specs checked by TLC; TLC-emitted behaviours replayed on the real '
                    'code and traces recorded from the real code validated by TLC'),
               dict(name='extension:monitors', path='/verif/checks/x01.py', serves_properties=[],
                    kind_free_text='specification coverage beyond the listed properties: specs/Monitor.tla + Monitor_trace.tla '
                    '(openhtf.core.monitors); ./check X01 --tier quick|thorough; evidence in evidence_extra/X01.json'),
               dict(name='extension:retry-helpers', path='/verif/checks/x02.py', serves_properties=[],
                    kind_free_text='specification coverage beyond the listed properties: specs/Retry.tla '
                    '(openhtf.util.timeouts loop_until_timeout_or_valid / retry_until_valid_or_limit_reached); '
                    './check X02; evidence in evidence_extra/X02.json'),
               dict(name='extension:group-algebra', path='/verif/checks/x03.py', serves_properties=[],
                    kind_free_text='specification coverage beyond the listed properties: specs/GroupAlgebra.tla '
                    '(PhaseGroup construction, with_context, combine, wrap); ./check X03; evidence in evidence_extra/X03.json')],
      checks=checks,
      not_applicable=na,
      notes='All checks: ./check <ID> --tier quick|thorough. Exit 0 ok, 1 violation, 2 machinery failure.')
  with open(os.path.join(ROOT, 'MANIFEST.json'), 'w') as fh:
    json.dump(m, fh, indent=1)
  print('wrote MANIFEST.json with %d checks, %d not_applicable' % (len(checks), len(na)))


if __name__ == '__main__':
  main()
