#!/usr/bin/env python3
"""Regenerates MANIFEST.json from the table below (single source of truth)."""
import json
import os

ROOT = os.path.dirname(os.path.dirname(os.path.abspath(__file__)))

CHECKS = {
    # id: (technique, level text, level note, design ref)
    'C20': ('TLA+ spec Config.tla checked by TLC; TLC-emitted histories replayed on real _Configuration (spec->code conformance)',
            'TLC proves Precedence/ViewsAgree/RestoreExact/... on Config.tla exhaustively for 2 keys x 2 values; every TLC-enumerated '
            'operation history up to the bound plus seeded random walks is replayed on the real class and every read API is compared '
            'with the model after every operation',
            'trusted: TLC, the ~100-line replay driver, value concretisation families; flags injected via load_flag_values()',
            'DESIGN.md 5/C20'),
}

NOT_APPLICABLE = {
}

ALL = ['C%02d' % i for i in range(1, 21)]


def main():
  checks = []
  for pid in ALL:
    if pid not in CHECKS:
      continue
    tech, text, note, ref = CHECKS[pid]
    checks.append(dict(
        property_id=pid,
        quick_cmd='./check %s --tier quick' % pid,
        thorough_cmd='./check %s --tier thorough' % pid,
        evidence_file='/verif/evidence/%s.json' % pid,
        replay_cmd_template='./check %s --replay {path}' % pid,
        engine='tlc+replay',
        level_claimed=dict(category='model_checking', text=text, design_ref=ref),
        level_note=note,
        technique=tech))
  na = [dict(property_id=p, reason=NOT_APPLICABLE.get(p, 'check not built yet (work in progress); see DESIGN.md 10'))
        for p in ALL if p not in CHECKS]
  m = dict(
      version=1,
      setup_cmd='./setup.sh',
      hooks=dict(guard='OPENHTF_VERIF',
                 enable='checks run the working tree of /repo directly (PYTHONPATH=/repo, OPENHTF_VERIF=1); no build step',
                 baseline_off_cmd='cd /repo && env -u OPENHTF_VERIF /venv/bin/python -m pytest -ra -q -p no:cacheprovider --timeout=900 --continue-on-collection-errors',
                 source_commits=[], add_only=True),
      engines=[dict(name='tlc+replay', path='/verif/vf',
                    serves_properties=sorted(CHECKS),
                    kind_free_text='TLA+ specifications under /verif/specs checked by TLC; TLC-emitted behaviours replayed on the real '
                    'code and traces recorded from the real code validated by TLC')],
      checks=checks,
      not_applicable=na,
      notes='All checks: ./check <ID> --tier quick|thorough. Exit 0 ok, 1 violation, 2 machinery failure.')
  with open(os.path.join(ROOT, 'MANIFEST.json'), 'w') as fh:
    json.dump(m, fh, indent=1)
  print('wrote MANIFEST.json with %d checks, %d not_applicable' % (len(checks), len(na)))


if __name__ == '__main__':
  main()
