#!/usr/bin/env python3
"""Regression over the seeded changes: every seeded/<id>/patch.diff is applied
to a scratch worktree of /repo's HEAD and the check of its property is run
against it (VERIF_REPO=<worktree>); the check must exit 1 with a VIOLATION
line.  The worktree lives outside /repo and /verif and is removed afterwards.

usage: tools/reseed.py [--shard k/n] [id ...]      (default: all; shards run side by side in their own worktrees)"""
import glob
import json
import os
import subprocess
import sys
import time

ROOT = os.path.dirname(os.path.dirname(os.path.abspath(__file__)))
WT = '/tmp/reseed_wt'


def sh(*cmd, **kw):
  return subprocess.run(cmd, stdout=subprocess.PIPE, stderr=subprocess.STDOUT, text=True, **kw)


def main():
  global WT
  k, n = 0, 1
  if len(sys.argv) > 2 and sys.argv[1] == '--shard':
    k, n = map(int, sys.argv[2].split('/'))
    del sys.argv[1:3]
    WT = '%s_%d' % (WT, k)
  ids = sys.argv[1:] or sorted(os.path.basename(d) for d in glob.glob(os.path.join(ROOT, 'seeded', '*')))[k::n]
  sh('git', '-C', '/repo', 'worktree', 'remove', '--force', WT)
  r = sh('git', '-C', '/repo', 'worktree', 'add', '--detach', WT)
  if r.returncode:
    print(r.stdout)
    return 2
  missed = []
  head = sh('git', '-C', '/repo', 'rev-parse', 'HEAD').stdout.strip()
  try:
    for sid in ids:
      d = os.path.join(ROOT, 'seeded', sid)
      meta = json.load(open(os.path.join(d, 'meta.json')))
      prop = meta['property']
      sh('git', '-C', WT, 'checkout', '--', '.')
      # a change that edits code a later repair rewrote is kept against the tree it was written for
      sh('git', '-C', WT, 'checkout', '--detach', meta.get('base_commit', head))
      a = sh('git', '-C', WT, 'apply', os.path.join(d, 'patch.diff'))
      if a.returncode:
        print('%s: patch does not apply to HEAD: %s' % (sid, a.stdout.strip()[:200]), flush=True)
        missed.append(sid)
        continue
      t0 = time.time()
      env = dict(os.environ, VERIF_REPO=WT)
      c = sh(os.path.join(ROOT, 'check'), prop, '--tier', 'quick', cwd=ROOT, env=env)
      viol = [l for l in c.stdout.splitlines() if l.startswith('  what:')]
      ok = c.returncode == 1 and 'VIOLATION property=%s' % prop in c.stdout
      print('%s: %s rc=%d (%.0fs) %s' % (sid, 'caught' if ok else 'MISSED', c.returncode, time.time() - t0,
                                         viol[0].strip()[:120] if viol else ''), flush=True)
      if not ok:
        missed.append(sid)
    # behaviour-preserving refactorings: no check may raise an alarm
    if not sys.argv[1:]:
      for d in sorted(glob.glob(os.path.join(ROOT, 'benign', '*')))[k::n]:
        meta = json.load(open(os.path.join(d, 'meta.json')))
        sh('git', '-C', WT, 'checkout', '--', '.')
        sh('git', '-C', WT, 'checkout', '--detach', head)
        a = sh('git', '-C', WT, 'apply', os.path.join(d, 'patch.diff'))
        if a.returncode:
          print('%s: patch does not apply to HEAD' % os.path.basename(d), flush=True)
          continue
        for prop in meta['checks_run']:
          c = sh(os.path.join(ROOT, 'check'), prop, '--tier', 'quick', cwd=ROOT, env=dict(os.environ, VERIF_REPO=WT))
          print('%s / %s: %s rc=%d' % (os.path.basename(d), prop, 'quiet' if c.returncode == 0 else 'ALARM', c.returncode), flush=True)
          if c.returncode:
            missed.append(os.path.basename(d) + '/' + prop)
  finally:
    sh('git', '-C', '/repo', 'worktree', 'remove', '--force', WT)
  print('missed / false alarms: %s' % (missed or 'none'))
  return 1 if missed else 0


if __name__ == '__main__':
  sys.exit(main())
