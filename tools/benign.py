#!/usr/bin/env python3
"""Stores a behaviour-preserving refactoring produced in a scratch worktree under /verif/benign/<sid>/ and runs the
listed checks against it: every one must exit 0.
usage: tools/benign.py <worktree> <sid> <property> <check> [<check> ...]"""
import json
import os
import subprocess
import sys

wt, sid, prop = sys.argv[1:4]
checks = sys.argv[4:]
dst = '/verif/benign/%s' % sid
os.makedirs(dst, exist_ok=True)
run = lambda cmd: subprocess.run(cmd, shell=True, capture_output=True, text=True)
patch = run('git -C %s diff -- openhtf' % wt).stdout
assert patch.strip(), 'no change in worktree'
open(dst + '/patch.diff', 'w').write(patch)
if os.path.exists(wt + '/REFACTOR.md'):
  open(dst + '/REFACTOR.md', 'w').write(open(wt + '/REFACTOR.md').read())
suite = run('cd %s && /venv/bin/python -m pytest -q -p no:cacheprovider --timeout=900 --continue-on-collection-errors 2>&1 | tail -1' % wt).stdout.strip()
res = {}
for c in checks:
  r = run('cd /verif && VERIF_REPO=%s timeout 3000 ./check %s --tier quick' % (wt, c))
  viol = [l.strip() for l in r.stdout.splitlines() if l.startswith('  what:')]
  res[c] = dict(rc=r.returncode, violations=viol[:4])
  print(sid, c, 'quiet' if r.returncode == 0 else 'ALARM rc=%d %s' % (r.returncode, viol[:2]), flush=True)
ok = all(v['rc'] == 0 for v in res.values())
json.dump(dict(property=prop, kind='behaviour-preserving refactoring (structural) written by a sub-agent given only the property text',
               suite_with_change=suite, checks_run=checks, checks=res,
               result='every listed check exited 0 with the refactoring applied (quick tier)' if ok else 'ALARM - see checks'),
          open(dst + '/meta.json', 'w'), indent=1)
